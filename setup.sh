#!/bin/sh
# Offline build of the symbolic engine (module cache only).
set -e
HERE=$(cd "$(dirname "$0")" && pwd)
export GOFLAGS=-mod=mod GOPROXY=off GOSUMDB=off GOTOOLCHAIN=local
mkdir -p "$HERE/bin" "$HERE/evidence" "$HERE/out"
cd "$HERE/engine" && go build -o "$HERE/bin/symgo" .
echo "symgo built"
