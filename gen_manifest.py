#!/usr/bin/env python3
"""Regenerates MANIFEST.json from claims.json (per-property claim texts) so it is always valid."""
import json, sys
claims = json.load(open('claims.json'))
props = [json.loads(l) for l in open('properties.jsonl')]
checks, na = [], []
for p in props:
    pid = p['id']
    c = claims.get(pid)
    if not c or c.get('not_applicable'):
        na.append({"property_id": pid, "reason": (c or {}).get('not_applicable', 'no check built yet with the solver-based technique; see DESIGN.md')})
        continue
    checks.append({
        "property_id": pid,
        "quick_cmd": f"./check {pid} quick",
        "thorough_cmd": f"./check {pid} thorough",
        "evidence_file": f"evidence/{pid}.json",
        "replay_cmd_template": "./check --replay {path}",
        "engine": "symgo",
        "level_claimed": {"category": "model_checking", "text": c['text'], "design_ref": c.get('design_ref', 'DESIGN.md §4 ' + pid)},
        "level_note": c['note'],
        "technique": c.get('technique', "bounded symbolic execution of go/ssa of the real code + SMT (QF_BV, z3 5.1)"),
    })
m = {
    "version": 1,
    "setup_cmd": "./setup.sh",
    "hooks": {
        "guard": "verif",
        "enable": "harness files are injected as /repo/zz_verif_*.go through go/packages Overlay with -tags=verif; no file in /repo carries the tag",
        "baseline_off_cmd": "cd /repo && go test -vet=off -count=1 -timeout 25m ./...",
        "source_commits": [],
        "add_only": True,
    },
    "engines": [{"name": "symgo", "path": "engine/", "serves_properties": [c['property_id'] for c in checks],
                 "kind_free_text": "symbolic interpreter for go/ssa (x/tools v0.29.0) written for this task; QF_BV queries to z3 5.1 (z3-new), stateless DFS over decision vectors, concrete heap shape with symbolic scalars, engine-controlled scheduler for goroutines"}],
    "checks": checks,
    "not_applicable": na,
    "notes": "Exit codes: 0 held within the stated bounds (KNOWN-FINDING lines possible), 1 VIOLATION (only counterexamples that reproduce in concrete replay), 2 inconclusive/broken (never a VIOLATION line). Genuine defects repaired: see known_findings.json (status fixed) and the fix: commits in /repo.",
}
json.dump(m, open('MANIFEST.json', 'w'), indent=1)
print(len(checks), "claimed;", len(na), "not applicable")
