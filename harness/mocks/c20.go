//go:build verif

package mocks

import (
	"errors"

	"github.com/Shopify/sarama"
)

type vReporter struct {
	n    int
	msgs []string
}

func (r *vReporter) Errorf(format string, a ...interface{}) {
	r.n++
	r.msgs = append(r.msgs, format)
}

var (
	vErrScripted = errors.New("scripted failure")
	vErrChecker  = errors.New("checker rejects")
)

type vExp struct {
	succeed bool
	checker int // 0 none, 1 passing, 2 failing
}

// vPartitioner returns a free choice within range (or an error), recording what it returned.
type vPartitioner struct {
	fail   bool
	last   int32
	lastN  int32
	calls  int
}

func (p *vPartitioner) Partition(m *sarama.ProducerMessage, n int32) (int32, error) {
	p.calls++
	p.lastN = n
	if p.fail {
		return -1, vErrScripted
	}
	c := vInt32("partitionChoice")
	vAssume(c >= 0 && c < n)
	p.last = c
	return c, nil
}
func (p *vPartitioner) RequiresConsistency() bool { return false }

func vScript(n int) []vExp {
	out := make([]vExp, n)
	for i := range out {
		out[i] = vExp{succeed: vChoose("expSucceeds", 2) == 1, checker: vChoose("expChecker", 3)}
	}
	return out
}

func vChecker(kind int) MessageChecker {
	switch kind {
	case 1:
		return func(*sarama.ProducerMessage) error { return nil }
	case 2:
		return func(*sarama.ProducerMessage) error { return vErrChecker }
	}
	return nil
}

// C20: mocks.SyncProducer.SendMessage replays the script faithfully.
func verifHarness_C20_syncSendMessage() {
	rep := &vReporter{}
	conf := sarama.NewConfig()
	part := &vPartitioner{fail: vChoose("partitionerFails", 2) == 1}
	conf.Producer.Partitioner = func(topic string) sarama.Partitioner { return part }
	sp := NewSyncProducer(rep, conf)
	nparts := vInt32("topicPartitions")
	vAssume(nparts >= 1 && nparts <= 64)
	sp.SetPartitions(map[string]int32{"t": nparts})
	E := vChoose("expectations", 3)
	M := vChoose("calls", 4)
	script := vScript(E)
	for _, e := range script {
		if e.succeed {
			sp.ExpectSendMessageWithMessageCheckerFunctionAndSucceed(vChecker(e.checker))
		} else {
			sp.ExpectSendMessageWithMessageCheckerFunctionAndFail(vChecker(e.checker), vErrScripted)
		}
	}
	wantReports := 0
	offsets := int64(0)
	for i := 0; i < M; i++ {
		msg := &sarama.ProducerMessage{Topic: "t", Value: sarama.StringEncoder("v")}
		before := rep.n
		p, off, err := sp.SendMessage(msg)
		switch {
		case i >= E:
			vAssert(err != nil, "no-expectation-is-an-error")
			vAssert(rep.n == before+1, "input-without-expectation-reported")
			wantReports++
		case part.fail:
			vAssert(err == vErrScripted, "partitioner-error-returned")
			vAssert(rep.n == before+1, "partitioner-error-reported")
			wantReports++
		case script[i].checker == 2:
			vAssert(err == vErrChecker, "checker-error-returned")
			vAssert(rep.n == before+1, "failing-checker-reported")
			wantReports++
		case script[i].succeed:
			offsets++
			vAssert(err == nil, "scripted-success")
			vAssert(off == offsets, "success-offsets-increase-by-one")
			vAssert(part.lastN == nparts, "partitioner-offered-the-configured-partition-count")
			vAssert(msg.Partition == part.last, "message-carries-the-chosen-partition")
			// the return value is not asserted: mocks.SyncProducer answers partition 0 whatever
			// the partitioner chose, and examples/http_server's test pins exactly that
			// (DESIGN.md §0, "withdrawn"); msg.Partition carries the choice
			_ = p
			vAssert(rep.n == before, "nothing-reported-on-success")
		default:
			vAssert(err == vErrScripted, "scripted-error-returned")
			vAssert(rep.n == before, "nothing-reported-on-scripted-error")
		}
	}
	_ = sp.Close()
	if M < E {
		wantReports++
	}
	vAssert(rep.n == wantReports, "reporter-called-exactly-for-deviations")
	vReach()
}

// C20: mocks.AsyncProducer gives every message exactly one outcome following the script.
func verifHarness_C20_async() {
	vConfig("delay", 1)
	rep := &vReporter{}
	conf := sarama.NewConfig()
	conf.Producer.Return.Successes = true
	conf.ChannelBufferSize = 8
	part := &vPartitioner{}
	conf.Producer.Partitioner = func(topic string) sarama.Partitioner { return part }
	mp := NewAsyncProducer(rep, conf)
	E := vChoose("expectations", 3)
	M := vChoose("messages", 3)
	script := vScript(E)
	for _, e := range script {
		if e.succeed {
			mp.ExpectInputWithMessageCheckerFunctionAndSucceed(vChecker(e.checker))
		} else {
			mp.ExpectInputWithMessageCheckerFunctionAndFail(vChecker(e.checker), vErrScripted)
		}
	}
	var msgs []*sarama.ProducerMessage
	for i := 0; i < M; i++ {
		m := &sarama.ProducerMessage{Topic: "t", Value: sarama.StringEncoder("v")}
		msgs = append(msgs, m)
		mp.Input() <- m
	}
	_ = mp.Close()
	succ := map[*sarama.ProducerMessage]int{}
	fail := map[*sarama.ProducerMessage]int{}
	var succOffsets []int64
	for m := range mp.Successes() {
		succ[m]++
		succOffsets = append(succOffsets, m.Offset)
	}
	failErr := map[*sarama.ProducerMessage]error{}
	for e := range mp.Errors() {
		fail[e.Msg]++
		failErr[e.Msg] = e.Err
	}
	wantReports := 0
	for i, m := range msgs {
		if i >= E {
			vAssert(succ[m]+fail[m] == 0, "no-outcome-without-expectation")
			wantReports++
			continue
		}
		vAssert(succ[m]+fail[m] >= 1, "every-message-gets-an-outcome")
		vAssert(succ[m]+fail[m] <= 1, "no-message-gets-two-outcomes")
		switch {
		case script[i].checker == 2:
			wantReports++
			vAssert(fail[m] >= 1 && failErr[m] == vErrChecker, "failing-checker-yields-its-error")
		case script[i].succeed:
			vAssert(succ[m] == 1, "scripted-success-delivered")
		default:
			vAssert(fail[m] == 1 && failErr[m] == vErrScripted, "scripted-error-delivered")
		}
	}
	for i, o := range succOffsets {
		vAssert(o == int64(i+1), "success-offsets-1-2-3")
	}
	if M < E {
		wantReports++
	}
	vAssert(rep.n == wantReports, "reporter-called-exactly-for-deviations")
	vReach()
}

// C20: the mock consumer yields scripted messages/errors per partition in order with
// consecutive offsets and the matching high-water mark, and reports exactly the deviations.
func verifHarness_C20_consumer() {
	rep := &vReporter{}
	conf := sarama.NewConfig()
	conf.ChannelBufferSize = 8
	c := NewConsumer(rep, conf)
	expOffset := vInt64("expectedOffset")
	pcExp := c.ExpectConsumePartition("t", 0, expOffset)
	pc2 := c.ExpectConsumePartition("t", 1, AnyOffset)
	n0 := vChoose("yield0", 3)
	for i := 0; i < n0; i++ {
		pcExp.YieldMessage(&sarama.ConsumerMessage{Value: []byte{byte(i)}})
	}
	pcExp.YieldError(vErrScripted)
	pc2.YieldMessage(&sarama.ConsumerMessage{Value: []byte{9}})
	askOffset := vInt64("askedOffset")
	wantReports := 0
	got, err := c.ConsumePartition("t", 0, askOffset)
	vAssert(err == nil && got != nil, "expected-partition-consumable")
	if askOffset != expOffset && expOffset != AnyOffset {
		wantReports++
	}
	vAssert(rep.n == wantReports, "unexpected-offset-reported-and-nothing-else")
	_, err = c.ConsumePartition("t", 7, 0)
	vAssert(err != nil, "unexpected-partition-is-an-error")
	wantReports++
	vAssert(rep.n == wantReports, "unexpected-partition-reported")
	for i := 0; i < n0; i++ {
		m := <-got.Messages()
		vAssert(m.Offset == int64(i+1) && m.Topic == "t" && m.Partition == 0 && m.Value[0] == byte(i), "in-order-consecutive-offsets")
	}
	vAssert(got.HighWaterMarkOffset() == int64(n0)+1, "high-water-mark-follows-yields")
	e := <-got.Errors()
	vAssert(e.Err == vErrScripted && e.Partition == 0, "scripted-error-delivered")
	hw := c.HighWaterMarks()
	vAssert(hw["t"][0] == int64(n0)+1 && hw["t"][1] == 2, "high-water-marks-per-partition")
	// close order: consumer closes its partition consumers; partition 1 was never started
	_ = c.Close()
	wantReports++ // partition 1: expectations set but never consumed
	vAssert(rep.n == wantReports, "leftover-partition-reported-at-close")
	_ = got.Close() // closing twice is harmless
	vAssert(rep.n == wantReports, "second-close-reports-nothing")
	vReach()
}

// C20: SendMessages (the batch call) consumes one expectation per message in order; a failing
// checker or a scripted failure stops the batch with that error; too few expectations are
// reported; topic partition overrides are what the partitioner is offered.
func verifHarness_C20_syncSendMessages() {
	rep := &vReporter{}
	conf := sarama.NewConfig()
	part := &vPartitioner{}
	conf.Producer.Partitioner = func(topic string) sarama.Partitioner { return part }
	sp := NewSyncProducer(rep, conf)
	nparts := vInt32("topicPartitions")
	vAssume(nparts >= 1 && nparts <= 64)
	sp.SetPartitions(map[string]int32{"t": nparts})
	sp.SetDefaultPartitions(7)
	E := vChoose("expectations", 4)
	M := 1 + vChoose("messages", 3)
	script := vScript(E)
	for _, e := range script {
		if e.succeed {
			sp.ExpectSendMessageWithMessageCheckerFunctionAndSucceed(vChecker(e.checker))
		} else {
			sp.ExpectSendMessageWithMessageCheckerFunctionAndFail(vChecker(e.checker), vErrScripted)
		}
	}
	var msgs []*sarama.ProducerMessage
	for i := 0; i < M; i++ {
		topic := "t"
		if i == 1 {
			topic = "other" // falls back to the default partition count
		}
		msgs = append(msgs, &sarama.ProducerMessage{Topic: topic, Value: sarama.StringEncoder("v")})
	}
	err := sp.SendMessages(msgs)
	if M > E {
		vAssert(err != nil && rep.n == 1, "too-few-expectations-reported")
		vAssert(len(sp.expectations) == E, "rejected-batch-consumes-no-expectation")
	} else {
		// the first message whose expectation fails (checker or scripted) ends the batch
		failAt := -1
		for i := 0; i < M; i++ {
			if script[i].checker == 2 || !script[i].succeed {
				failAt = i
				break
			}
		}
		if failAt < 0 {
			vAssert(err == nil && rep.n == 0, "all-succeed")
			for i, m := range msgs {
				vAssert(m.Offset == int64(i+1), "offsets-increase-by-one")
			}
		} else {
			if script[failAt].checker == 2 {
				vAssert(err == vErrChecker && rep.n == 1, "failing-checker-stops-the-batch-and-is-reported")
			} else {
				vAssert(err == vErrScripted && rep.n == 0, "scripted-failure-stops-the-batch")
			}
			for i := 0; i < failAt; i++ {
				vAssert(msgs[i].Offset == int64(i+1), "earlier-messages-keep-their-offsets")
			}
		}
		vAssert(len(sp.expectations) == E-M, "one-expectation-per-message-consumed")
	}
	vReach()
}
