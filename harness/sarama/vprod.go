//go:build verif

package sarama

// The producer scenario (S-PROD): the real async producer pipeline (all its goroutines) on a
// fake Client and the simulated cluster, driven by one submitting goroutine and two
// collectors, then closed. Used by C01 C02 C04 C05 C16 C18 and C12.

type vProdCfg struct {
	n, parts, brokers int
	faults, faultMenu int
	retryMax          int
	idem              bool
	flushMessages     int
	flushMaxMessages  int
	flushFrequency    bool
	chanBuf           int
	delay             int
	interceptors      []ProducerInterceptor
	partsOf           []int32 // partition of message i (nil: i % parts)
	version           KafkaVersion
	useClose          bool
	closeAfter        int // stop submitting and close after this many messages (0: all of them)
	class             string // configuration part of the failure class
	holdFirst         bool // the first produce request is answered only after everything was submitted
	multiFault        bool // two partitions of one request may meet different faults
	maxMessageBytes   int   // Producer.MaxMessageBytes (0: default)
	valueLen          []int // value length of message i (nil: 1 byte); the first byte is the id
	headersOn         int   // 1+index of a message that carries a record header (0: none)
}

type vEvent struct {
	msg       *ProducerMessage
	err       error
	offset    int64
	partition int32
}

type vProdResult struct {
	cl     *vCluster
	client *vFakeClient
	conf   *Config
	msgs   []*ProducerMessage
	events []vEvent
	p      *asyncProducer
	partsOf []int32
	closeErr  error
	usedClose bool
}

func vRunProducer(c vProdCfg) *vProdResult {
	vConfig("delay", c.delay)
	conf := NewConfig()
	conf.Producer.Return.Successes = true
	conf.Producer.Return.Errors = true
	conf.Producer.Retry.Max = c.retryMax
	conf.Producer.Retry.Backoff = 0
	conf.Producer.Partitioner = NewManualPartitioner
	conf.ChannelBufferSize = c.chanBuf
	conf.Producer.Flush.Messages = c.flushMessages
	conf.Producer.Flush.MaxMessages = c.flushMaxMessages
	if c.flushFrequency {
		conf.Producer.Flush.Frequency = 1000000
	}
	conf.Producer.Interceptors = c.interceptors
	if c.maxMessageBytes > 0 {
		conf.Producer.MaxMessageBytes = c.maxMessageBytes
	}
	if c.version != (KafkaVersion{}) {
		conf.Version = c.version
	}
	if c.idem {
		conf.Producer.Idempotent = true
		conf.Version = V0_11_0_0
		conf.Net.MaxOpenRequests = 1
		conf.Producer.RequiredAcks = WaitForAll
	}
	cl := vNewCluster(conf, c.brokers, c.parts, c.faults)
	cl.faultMenu = c.faultMenu
	cl.holdFirst = c.holdFirst
	cl.multiFault = c.multiFault
	cl.release = make(chan struct{})
	client := &vFakeClient{conf: conf, cl: cl}
	vOverride("(*Broker).Produce", cl.produce)
	vOverride("(*Broker).Close", func(b *Broker) error { return nil })
	pi, err := newAsyncProducer(client)
	vAssume(err == nil)
	p := pi.(*asyncProducer)
	res := &vProdResult{cl: cl, client: client, conf: conf, p: p, partsOf: c.partsOf}
	done := make(chan struct{}, 2)
	if c.useClose {
		// with Close() the application does not read the channels itself
		done <- struct{}{}
		done <- struct{}{}
	}
	go func() {
		if c.useClose {
			return
		}
		for m := range p.Successes() {
			res.events = append(res.events, vEvent{msg: m, offset: m.Offset, partition: m.Partition})
		}
		done <- struct{}{}
	}()
	go func() {
		if c.useClose {
			return
		}
		for e := range p.Errors() {
			res.events = append(res.events, vEvent{msg: e.Msg, err: e.Err})
		}
		done <- struct{}{}
	}()
	limit := c.n
	if c.closeAfter > 0 && c.closeAfter < c.n {
		limit = c.closeAfter
	}
	for i := 0; i < limit; i++ {
		part := int32(i % c.parts)
		if c.partsOf != nil {
			part = c.partsOf[i]
		}
		val := ByteEncoder{byte(i + 1)}
		if c.valueLen != nil && c.valueLen[i] > 1 {
			val = make(ByteEncoder, c.valueLen[i])
			val[0] = byte(i + 1)
		}
		m := &ProducerMessage{Topic: "t", Partition: part, Value: val, Metadata: i}
		if c.headersOn == i+1 {
			m.Headers = []RecordHeader{{Key: []byte("h"), Value: []byte("v")}}
		}
		res.msgs = append(res.msgs, m)
		p.Input() <- m
	}
	close(cl.release)
	defer func() {
		// the failure class names the configuration and the fault kinds that actually occurred
		vClass(c.class + ",faults=" + cl.faultKinds)
	}()
	if c.useClose {
		// Close() drains Successes itself and returns the collected errors
		res.closeErr = p.Close()
		res.usedClose = true
		return res
	}
	p.AsyncClose()
	<-done
	<-done
	return res
}

// count of terminal events for message m
func (r *vProdResult) eventsFor(m *ProducerMessage) (n int, succ int) {
	for _, e := range r.events {
		if e.msg == m {
			n++
			if e.err == nil {
				succ++
			}
		}
	}
	return
}

func (r *vProdResult) partOf(i int) int32 {
	if r.partsOf != nil {
		return r.partsOf[i]
	}
	return int32(i % r.cl.nParts)
}

func (r *vProdResult) indexOf(m *ProducerMessage) int {
	for i, x := range r.msgs {
		if x == m {
			return i
		}
	}
	return -1
}

// ---------- oracles ----------

// C01: exactly one terminal event per submitted message, none for anything else.
func (r *vProdResult) assertC01() {
	for _, m := range r.msgs {
		n, _ := r.eventsFor(m)
		vAssert(n >= 1, "every-message-gets-an-outcome")
		vAssert(n <= 1, "no-message-gets-two-outcomes")
	}
	for _, e := range r.events {
		vAssert(r.indexOf(e.msg) >= 0, "no-event-for-unsubmitted-message")
	}
	vAssert(r.client.nClose == 1, "client-closed-once-after-drain")
	vAssert(vWGCount(&r.p.inFlight) == 0, "inflight-zero-at-close")
}

// C02: first copies in each partition log are in submission order; success offsets increase.
func (r *vProdResult) assertC02() {
	for p := int32(0); int(p) < r.cl.nParts; p++ {
		last := byte(0)
		seen := map[byte]bool{}
		for _, e := range r.cl.logs[p] {
			if seen[e.id] {
				continue
			}
			seen[e.id] = true
			vAssert(e.id > last, "first-copies-in-submission-order")
			last = e.id
		}
	}
	for _, a := range r.events {
		for _, b := range r.events {
			if a.err == nil && b.err == nil && a.partition == b.partition && r.indexOf(a.msg) < r.indexOf(b.msg) {
				vAssert(a.offset < b.offset, "success-offsets-follow-submission-order")
			}
		}
	}
}

// C04: a success names a log position holding exactly that message.
func (r *vProdResult) assertC04() {
	for _, e := range r.events {
		if e.err != nil {
			continue
		}
		i := r.indexOf(e.msg)
		want := r.partOf(i)
		vAssert(e.partition == want, "success-partition-is-the-chosen-one")
		log := r.cl.logs[e.partition]
		vAssert(e.offset >= 0 && int(e.offset) < len(log), "success-offset-inside-log")
		if e.offset >= 0 && int(e.offset) < len(log) {
			vAssert(log[e.offset].id == byte(i+1), "success-offset-holds-that-message")
		}
	}
	// nothing in any log that was not submitted
	for p := int32(0); int(p) < r.cl.nParts; p++ {
		for _, e := range r.cl.logs[p] {
			vAssert(e.id >= 1 && int(e.id) <= len(r.msgs), "log-holds-only-submitted-messages")
			vAssert(r.partOf(int(e.id-1)) == p, "message-in-its-own-partition")
		}
	}
}

// C05: idempotent producer: nothing appended twice; every success is in the log exactly once.
func (r *vProdResult) assertC05() {
	vAssert(len(r.cl.violations) == 0, "batches-in-sequence-or-identical-resend")
	for p := int32(0); int(p) < r.cl.nParts; p++ {
		cnt := map[byte]int{}
		for _, e := range r.cl.logs[p] {
			cnt[e.id]++
			vAssert(cnt[e.id] <= 1, "no-message-appended-twice")
		}
	}
	for _, e := range r.events {
		if e.err == nil {
			i := r.indexOf(e.msg)
			n := 0
			for _, le := range r.cl.logs[e.partition] {
				if le.id == byte(i+1) {
					n++
				}
			}
			vAssert(n == 1, "success-in-log-exactly-once")
		}
	}
}
