//go:build verif

package sarama

// The consumer scenario (S-CONS): the real partition consumer (dispatcher, responseFeeder,
// subscriptionManager, subscriptionConsumer) on a fake Client and a simulated log, with a
// reading application goroutine. Used by C03, C11 (faults), C18 (consumer side), C12.

import "time"

type vConsCfg struct {
	nBatches, recsPerBatch int
	start                  int64
	faults, faultMenu      int
	chanBuf                int
	delay                  int
	slowReader             bool
	perFetch               int // batches returned per fetch
	interceptors           []ConsumerInterceptor
	closeAfter             int // AsyncClose after this many messages (-1: after all)
}

const (
	vcNone = iota
	vcRedispatch   // NotLeaderForPartition: quiet redispatch
	vcReport       // unknown error: reported + redispatch
	vcConn         // connection error: broker consumer aborts
	vcThrottled    // throttled empty response
	vcMissingBlock // response without our block
	vcOutOfRange   // shuts the partition consumer down
	vcKinds
)

type vConsResult struct {
	msgs      []*ConsumerMessage
	errs      []*ConsumerError
	log       []vRec
	pc        *partitionConsumer
	shutdown  bool
	fetches   int
}

func (cl *vCluster) fetch(b *Broker, req *FetchRequest) (*FetchResponse, error) {
	cl.fetches++
	kind := vcNone
	if cl.faultsLeft > 0 {
		kind = vChoose("fetchFault", cl.faultMenu)
		if kind != vcNone {
			cl.faultsLeft--
		}
	}
	vYield()
	if kind == vcConn {
		return nil, errVConn
	}
	resp := &FetchResponse{Blocks: map[string]map[int32]*FetchResponseBlock{}, Version: req.Version}
	if kind == vcThrottled {
		resp.ThrottleTime = time.Millisecond
		return resp, nil
	}
	// a fetch that finds nothing new waits MaxWaitTime at the broker (virtual time passes)
	if kind == vcNone {
		pending := false
		for _, parts := range req.blocks {
			for p, rb := range parts {
				if rb.fetchOffset < cl.clogEnd[p] {
					pending = true
				}
			}
		}
		if !pending {
			<-time.After(cl.conf.Consumer.MaxWaitTime)
		}
	}
	for topic, parts := range req.blocks {
		for p, rb := range parts {
			if kind == vcMissingBlock {
				continue
			}
			blk := &FetchResponseBlock{HighWaterMarkOffset: cl.clogEnd[p], PreferredReadReplica: -1}
			switch kind {
			case vcRedispatch:
				blk.Err = ErrNotLeaderForPartition
			case vcReport:
				blk.Err = ErrUnknown
			case vcOutOfRange:
				blk.Err = ErrOffsetOutOfRange
			default:
				n := 0
				for _, batch := range cl.clog[p] {
					if batch.LastOffset() >= rb.fetchOffset && n < cl.perFetch {
						rs := newDefaultRecords(batch)
						blk.RecordsSet = append(blk.RecordsSet, &rs)
						n++
					}
				}
			}
			if resp.Blocks[topic] == nil {
				resp.Blocks[topic] = map[int32]*FetchResponseBlock{}
			}
			resp.Blocks[topic][p] = blk
		}
	}
	return resp, nil
}

func vRunConsumer(c vConsCfg) *vConsResult {
	vConfig("delay", c.delay)
	vConfig("ticks", 8)
	conf := NewConfig()
	conf.ChannelBufferSize = c.chanBuf
	conf.Consumer.Return.Errors = true
	conf.Consumer.Retry.Backoff = 0
	conf.Consumer.MaxProcessingTime = 100 * time.Millisecond
	conf.Consumer.Interceptors = c.interceptors
	conf.Version = V0_11_0_0
	cl := vNewCluster(conf, 1, 1, c.faults)
	cl.faultMenu = c.faultMenu
	cl.perFetch = c.perFetch
	res := &vConsResult{}
	// the log: nBatches batches of recsPerBatch records, offsets 0..
	off := int64(0)
	id := byte(1)
	for b := 0; b < c.nBatches; b++ {
		batch := &RecordBatch{Version: 2, FirstOffset: off, LastOffsetDelta: int32(c.recsPerBatch - 1), ProducerID: -1,
			FirstTimestamp: time.Unix(1600000000, 0)}
		for i := 0; i < c.recsPerBatch; i++ {
			batch.Records = append(batch.Records, &Record{OffsetDelta: int64(i), Key: []byte{id}, Value: []byte{id}})
			res.log = append(res.log, vRec{off: off, id: id, batch: b})
			off++
			id++
		}
		cl.clog[0] = append(cl.clog[0], batch)
	}
	cl.clogEnd[0] = off
	cl.logs[0] = make([]vLogEntry, int(off)) // GetOffset(newest) = len
	client := &vFakeClient{conf: conf, cl: cl}
	vOverride("(*Broker).Fetch", cl.fetch)
	vOverride("(*Broker).Close", func(b *Broker) error { return nil })
	ci, err := newConsumer(client)
	vAssume(err == nil)
	pci, err := ci.ConsumePartition("t", 0, c.start)
	vAssume(err == nil)
	pc := pci.(*partitionConsumer)
	res.pc = pc
	want := 0
	for _, r := range res.log {
		if r.off >= c.start {
			want++
		}
	}
	if c.closeAfter >= 0 && c.closeAfter < want {
		want = c.closeAfter
	}
	errDone := make(chan struct{})
	go func() {
		for e := range pc.Errors() {
			res.errs = append(res.errs, e)
			if e.Err == ErrOffsetOutOfRange {
				res.shutdown = true
			}
		}
		close(errDone)
	}()
	closed := false
	for {
		if len(res.msgs) >= want && !closed {
			pc.AsyncClose()
			closed = true
		}
		if c.slowReader && !closed {
			<-time.After(250 * time.Millisecond)
		}
		m, ok := <-pc.Messages()
		if !ok {
			break
		}
		res.msgs = append(res.msgs, m)
	}
	<-errDone
	res.fetches = cl.fetches
	vAssert(ci.Close() == nil, "consumer-close")
	return res
}

// delivered == the log suffix from start, in order, each once (a prefix of it if the
// partition consumer was shut down by an out-of-range verdict or closed early).
func (r *vConsResult) assertC03(start int64, complete bool) {
	k := 0
	var expect []vRec
	for _, rec := range r.log {
		if rec.off >= start {
			expect = append(expect, rec)
		}
	}
	for _, m := range r.msgs {
		vAssert(k < len(expect), "nothing-extra")
		if k < len(expect) {
			vAssert(m.Offset == expect[k].off, "in-order-each-once")
			vAssert(len(m.Key) == 1 && m.Key[0] == expect[k].id, "unaltered")
		}
		k++
	}
	if complete && !r.shutdown {
		vAssert(len(r.msgs) >= len(expect), "everything-delivered")
	}
}
