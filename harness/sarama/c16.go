//go:build verif

package sarama

// vSized is an Encoder whose length is a free integer (contents irrelevant to sizing).
type vSized struct {
	n int
}

func (s vSized) Encode() ([]byte, error) { return make([]byte, 0), nil }
func (s vSized) Length() int             { return s.n }

func vSizeMsg(name string, partition int32) (*ProducerMessage, int) {
	k, v := vInt(name+"K"), vInt(name+"V")
	vAssume(k >= 0 && k <= 1<<31 && v >= 0 && v <= 1<<31)
	m := &ProducerMessage{Topic: "t", Partition: partition, Key: vSized{k}, Value: vSized{v}}
	return m, k + v
}

func vC16Producer() *asyncProducer {
	conf := NewConfig()
	conf.Producer.MaxMessageBytes = vInt("maxMessageBytes")
	conf.Producer.Flush.MaxMessages = vInt("flushMaxMessages")
	conf.Producer.Flush.Messages = vInt("flushMessages")
	conf.Producer.Flush.Bytes = vInt("flushBytes")
	vAssume(conf.Producer.MaxMessageBytes > 0 && conf.Producer.MaxMessageBytes <= 1<<31)
	vAssume(conf.Producer.Flush.MaxMessages >= 0 && conf.Producer.Flush.Messages >= 0 && conf.Producer.Flush.Bytes >= 0)
	if vChoose("version", 2) == 1 {
		conf.Version = V0_11_0_0
	}
	return &asyncProducer{conf: conf, txnmgr: &transactionManager{producerID: noProducerID}}
}

// C16 arithmetic: a produce set in an arbitrary consistent state; one more message is accepted
// only if wouldOverflow says no. For all sizes and limits: the count limit, the per-partition
// byte limit (unless single message) and the request-size margin hold for what the set claims.
func verifHarness_C16_wouldOverflow() {
	p := vC16Producer()
	ps := newProduceSet(p)
	// arbitrary consistent accounting state: two partitions with free byte counts and counts
	b0, b1 := vInt("bytes0"), vInt("bytes1")
	c0, c1 := vInt("count0"), vInt("count1")
	vAssume(b0 >= 0 && b1 >= 0 && b0 <= 1<<32 && b1 <= 1<<32 && c0 >= 0 && c1 >= 0 && c0 <= 1<<20 && c1 <= 1<<20)
	vAssume((c0 == 0) == (b0 == 0) && (c1 == 0) == (b1 == 0))
	set0 := &partitionSet{bufferBytes: b0}
	set1 := &partitionSet{bufferBytes: b1}
	ps.msgs["t"] = map[int32]*partitionSet{}
	if vChoose("has0", 2) == 1 {
		ps.msgs["t"][0] = set0
	} else {
		vAssume(b0 == 0 && c0 == 0)
	}
	ps.msgs["t"][1] = set1
	ps.bufferBytes = b0 + b1
	ps.bufferCount = c0 + c1
	msg, _ := vSizeMsg("m", 0)
	version := 1
	if p.conf.Version.IsAtLeast(V0_11_0_0) {
		version = 2
	}
	size := msg.byteSize(version)
	over := ps.wouldOverflow(msg)
	conf := p.conf
	if !over {
		// what the set will hold after accepting msg, by its own estimate
		vAssert(conf.Producer.Flush.MaxMessages == 0 || ps.bufferCount+1 <= conf.Producer.Flush.MaxMessages, "count-limit")
		vAssert(ps.bufferBytes+size < int(MaxRequestSize)-10*1024, "request-size-margin")
		if _, has := ps.msgs["t"][0]; has {
			vAssert(b0+size < conf.Producer.MaxMessageBytes, "partition-batch-bytes-limit")
		}
	} else {
		// refusal is justified by one of the three documented reasons
		r1 := ps.bufferBytes+size >= int(MaxRequestSize)-10*1024
		_, has := ps.msgs["t"][0]
		r2 := has && b0+size >= conf.Producer.MaxMessageBytes
		r3 := conf.Producer.Flush.MaxMessages > 0 && ps.bufferCount >= conf.Producer.Flush.MaxMessages
		vAssert(r1 || r2 || r3, "refusal-justified")
	}
	vAssert(size >= msg.Key.Length()+msg.Value.Length(), "estimate-covers-key-and-value")
	vCover("overflow", over)
	vCover("fits", !over)
	vReach()
}

// readyToFlush equals its documented truth table for all configuration values.
func verifHarness_C16_readyToFlush() {
	p := vC16Producer()
	if vChoose("frequency", 2) == 1 {
		p.conf.Producer.Flush.Frequency = 1000000
	}
	ps := newProduceSet(p)
	ps.bufferBytes, ps.bufferCount = vInt("bytes"), vInt("count")
	vAssume(ps.bufferBytes >= 0 && ps.bufferCount >= 0)
	vAssume((ps.bufferCount == 0) == (ps.bufferBytes == 0))
	f := p.conf.Producer.Flush
	got := ps.readyToFlush()
	want := false
	switch {
	case ps.bufferCount == 0:
		want = false
	case f.Frequency == 0 && f.Bytes == 0 && f.Messages == 0:
		want = true
	case f.Messages > 0 && ps.bufferCount >= f.Messages:
		want = true
	case f.Bytes > 0 && ps.bufferBytes >= f.Bytes:
		want = true
	}
	vAssert(got == want, "truth-table")
	vReach()
}

// add / dropPartition keep the counters consistent with the per-partition sets.
func verifHarness_C16_accounting() {
	p := vC16Producer()
	ps := newProduceSet(p)
	version := 1
	if p.conf.Version.IsAtLeast(V0_11_0_0) {
		version = 2
	}
	total := 0
	n := 1 + vChoose("messages", 3)
	perPart := map[int32]int{}
	cnt := map[int32]int{}
	for i := 0; i < n; i++ {
		part := int32(vChoose("partition", 2))
		m := &ProducerMessage{Topic: "t", Partition: part, Key: ByteEncoder(make([]byte, vChoose("klen", 3))), Value: ByteEncoder(make([]byte, vChoose("vlen", 3)))}
		before := ps.bufferBytes
		first := ps.msgs["t"] == nil || ps.msgs["t"][part] == nil
		vAssert(ps.add(m) == nil, "add-succeeds")
		sz := ps.bufferBytes - before
		want := m.byteSize(version)
		if version == 2 && first {
			want += recordBatchOverhead
		}
		vAssert(sz == want, "add-accounts-the-estimate")
		perPart[part] += sz
		cnt[part]++
		total += sz
	}
	vAssert(ps.bufferBytes == total && ps.bufferCount == n, "totals")
	for part, b := range perPart {
		vAssert(ps.msgs["t"][part].bufferBytes == b && len(ps.msgs["t"][part].msgs) == cnt[part], "per-partition")
	}
	dropped := ps.dropPartition("t", 0)
	vAssert(len(dropped) == cnt[0], "drop-returns-the-partition's-messages")
	vAssert(ps.bufferBytes == total-perPart[0] && ps.bufferCount == n-cnt[0], "drop-updates-totals")
	vAssert(ps.empty() == (ps.bufferCount == 0), "empty")
	vReach()
}

// The dispatcher rejects a message larger than MaxMessageBytes with an error instead of sending it,
// and encode() never lets a request larger than MaxRequestSize onto the wire.
func verifHarness_C16_rejectOversize() {
	p := vC16Producer()
	msg, _ := vSizeMsg("m", 0)
	version := 1
	if p.conf.Version.IsAtLeast(V0_11_0_0) {
		version = 2
	}
	size := msg.byteSize(version)
	// the dispatcher's test, as written there
	p.conf.Producer.Return.Errors = true
	p.errors = make(chan *ProducerError, 1)
	p.input = make(chan *ProducerMessage, 2)
	p.inFlight.Add(0)
	handled := make(chan *ProducerMessage, 1)
	vOverride("(*asyncProducer).newTopicProducer", func(ap *asyncProducer, topic string) chan<- *ProducerMessage { return handled })
	p.input <- msg
	close(p.input)
	p.dispatcher()
	if size > p.conf.Producer.MaxMessageBytes {
		vAssert(len(p.errors) == 1 && len(handled) == 0, "oversize-rejected-not-sent")
		e := <-p.errors
		vAssert(e.Err == ErrMessageSizeTooLarge && e.Msg == msg, "oversize-error")
	} else {
		vAssert(len(p.errors) == 0 && len(handled) == 1, "fitting-message-passed-on")
	}
	vReach()
}

type vBigBody struct{ n int }

func (b *vBigBody) encode(pe packetEncoder) error {
	if pr, ok := pe.(*prepEncoder); ok {
		pr.length += b.n
	}
	return nil
}

func verifHarness_C16_requestSizeGuard() {
	n := vInt("bodyBytes")
	vAssume(n >= 0 && n <= 1<<40)
	if vChoose("class", 2) == 0 {
		vAssume(n > int(MaxRequestSize)) // every size above the limit at once
	} else {
		vAssume(n <= 8)
	}
	raw, err := encode(&vBigBody{n}, nil)
	if n > int(MaxRequestSize) {
		vAssert(err != nil && raw == nil, "oversize-request-refused")
	} else {
		vAssert(err == nil && len(raw) == n, "request-encoded")
	}
	vReach()
}

// C16 P-sys: every combination of flush triggers (count, frequency timer, none) and
// Flush.MaxMessages with three messages for one partition, fast or slow broker: every message
// is flushed without further input (Close completes, nothing is left buffered) and no request
// carries more than MaxMessages messages.
func verifHarness_C16_sysFlushTriggers() {
	c := vProdCfg{n: 3, parts: 1, brokers: 1, faults: 0, faultMenu: vfKinds, delay: 1, retryMax: 1}
	c.flushFrequency = vChoose("frequency", 2) == 1
	c.flushMessages = []int{0, 2, 5}[vChoose("flushMessages", 3)]
	c.flushMaxMessages = vChoose("maxMessages", 3)
	c.holdFirst = vChoose("slowFirstResponse", 2) == 1
	if c.flushMessages > 0 && !c.flushFrequency {
		// a count trigger alone never fires for a smaller remainder: not a configuration the
		// property promises anything about
		vAssume(c.flushMessages <= 1)
	}
	if vTier() > 0 {
		c.n, c.parts = 4, 2
	}
	c.class = vSprintf("freq=%v,messages=%d,max=%d,slow=%v", c.flushFrequency, c.flushMessages, c.flushMaxMessages, c.holdFirst)
	r := vRunProducer(c)
	r.assertC01()
	r.assertC02()
	for _, req := range r.cl.requests {
		if c.flushMaxMessages > 0 {
			vAssert(req.nMsgs <= c.flushMaxMessages, "no-request-carries-more-than-MaxMessages")
		}
	}
	for _, e := range r.events {
		vAssert(e.err == nil, "everything-delivered")
	}
	vReach()
}
