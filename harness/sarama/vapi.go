//go:build verif

package sarama

// Harness vocabulary. Inside the symbolic engine every function in this file is intercepted
// by name; the bodies below are the native twins used when a counterexample is replayed with
// `go test` (values come from the replay file named by $VERIF_REPLAY).

import (
	"encoding/json"
	"fmt"
	"os"
	"reflect"
	"strconv"
	"sync"
)

type vReplayDecision struct {
	K byte `json:"k"`
	N int  `json:"n"`
	C int  `json:"c"`
}

type vReplayFile struct {
	Harness string            `json:"harness"`
	Label   string            `json:"label"`
	Model   map[string]uint64 `json:"model"`
	Path    []vReplayDecision `json:"path"`
}

var (
	vReplay     *vReplayFile
	vReplayOnce sync.Once
	vCounts     = map[string]int{}
	vChoiceIdx  int
	vFailed     []string
)

type vAssumeFailed struct{}

func vLoad() {
	vReplayOnce.Do(func() {
		vReplay = &vReplayFile{Model: map[string]uint64{}}
		if p := os.Getenv("VERIF_REPLAY"); p != "" {
			b, err := os.ReadFile(p)
			if err != nil {
				panic(err)
			}
			if err := json.Unmarshal(b, vReplay); err != nil {
				panic(err)
			}
		}
	})
}

func vVal(name string) uint64 {
	vLoad()
	k := vCounts[name]
	vCounts[name] = k + 1
	return vReplay.Model[fmt.Sprintf("%s#%d", name, k)]
}

func vInt64(name string) int64   { return int64(vVal(name)) }
func vInt32(name string) int32   { return int32(vVal(name)) }
func vInt16(name string) int16   { return int16(vVal(name)) }
func vInt8(name string) int8     { return int8(vVal(name)) }
func vUint64(name string) uint64 { return vVal(name) }
func vUint32(name string) uint32 { return uint32(vVal(name)) }
func vUint16(name string) uint16 { return uint16(vVal(name)) }
func vByte(name string) byte     { return byte(vVal(name)) }
func vInt(name string) int       { return int(vVal(name)) }
func vBool(name string) bool     { return vVal(name)&1 != 0 }

func vBytes(name string, n int) []byte {
	b := make([]byte, n)
	for i := range b {
		b[i] = byte(vVal(fmt.Sprintf("%s[%d]", name, i)))
	}
	return b
}

func vString(name string, n int) string { return string(vBytes(name, n)) }

// vChoose is an enumerated (case-split) decision with n alternatives.
func vChoose(name string, n int) int {
	vLoad()
	for vChoiceIdx < len(vReplay.Path) {
		d := vReplay.Path[vChoiceIdx]
		vChoiceIdx++
		if d.K == 'C' {
			return d.C
		}
	}
	return 0
}

func vAssume(c bool) {
	if !c {
		panic(vAssumeFailed{})
	}
}

func vAssert(c bool, label string) {
	if !c {
		vFailed = append(vFailed, label)
	}
}

func vCover(label string, c bool) {}
func vReach()                     {}
func vTier() int                  { n, _ := strconv.Atoi(os.Getenv("VERIF_TIER")); return n }
func vConfig(key string, val int) {}
func vAllocLimit(n int)           {}
func vNote(s string)              {}
func vDeadlockOK()                {}
func vYield()                     {}
func vIsSymbolic() bool           { return false }
func vNow() int64                 { return 0 }
func vThreads() int               { return 0 }
func vCRCCount() int              { return 0 }
func vCRCInfo(k int) (uint32, int) { return 0, 0 }
func vCRCResult(k int) uint32      { return 0 }

// vOverride redirects a function of the package under test to f for the rest of the path
// (engine only; harnesses that use it cannot be replayed natively).
func vOverride(target string, f interface{}) {
	panic("verif: vOverride is engine-only")
}

func vSliceLen(x interface{}) int        { panic("verif: engine-only") }
func vSliceSwap(x interface{}, i, j int) { panic("verif: engine-only") }
func vHeld(mu interface{}) bool          { panic("verif: engine-only") }
func vRHeld(mu interface{}) bool         { panic("verif: engine-only") }
func vWGCount(wg *sync.WaitGroup) int    { panic("verif: engine-only") }

// vPanics runs f and reports whether it panicked (ordinary Go; interpreted by the engine too).
func vPanics(f func()) (panicked bool) {
	defer func() {
		if r := recover(); r != nil {
			if _, ok := r.(vAssumeFailed); ok {
				panic(r)
			}
			panicked = true
		}
	}()
	f()
	return false
}
func vClass(s string) {}

// structural equality (engine: a solver term; native twin: reflect.DeepEqual)
func vDeepEqual(a, b interface{}) bool { return reflect.DeepEqual(a, b) }
func vWeakEqual(a, b interface{}) bool { return true }
func vBytesEqual(a, b []byte) bool     { return string(a) == string(b) }

// vEnvInt reads an integer from the environment (debugging aid: restrict a harness).
func vEnvInt(name string, def int) int { return def }
func vWireEqual(a, b interface{}, wire []byte) bool { return true }
