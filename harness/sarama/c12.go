//go:build verif

package sarama

import (
	"context"
	"time"
)

// C12 — shutdown always completes: every scenario below must reach its end (the engine
// reports a deadlock or a panic anywhere as a failure) with the public channels closed.

// producer: Close()/AsyncClose() after every prefix of the submissions, with faults in flight
func verifHarness_C12_producer() {
	c := vProdScenario(0)
	c.closeAfter = vChoose("closeAfter", c.n+1)
	c.useClose = vChoose("useClose", 2) == 1
	r := vRunProducer(c)
	if !c.useClose {
		r.assertC01()
	}
	// channels closed after their last event
	_, okS := <-r.p.successes
	_, okE := <-r.p.errors
	vAssert(!okS && !okE, "producer-channels-closed")
	vAssert(r.client.nClose == 1, "embedded-client-closed-once")
	vReach()
}

func verifHarness_C12_producerSchedules_T() {
	c := vProdScenarioSized(1, false) // x closeAfter: the small sizes in both tiers
	c.closeAfter = vChoose("closeAfter", c.n+1)
	r := vRunProducer(c)
	r.assertC01()
	vReach()
}

// A producer whose only flush trigger is a message count (Flush.Messages = 3, no frequency, no
// byte trigger), closed with 1..3 messages submitted. With fewer than 3 the buffered messages
// are never flushed and Close/AsyncClose never completes on the pinned tree (known finding).
func verifHarness_C12_producerCountTriggerOnly() {
	vClass("flush=count-only")
	c := vProdCfg{n: 1 + vChoose("messages", 3), parts: 1, brokers: 1, retryMax: 1, flushMessages: 3,
		useClose: vChoose("close", 2) == 1, class: "flush=count-only"}
	r := vRunProducer(c)
	if !c.useClose {
		r.assertC01()
	}
	vReach()
}

// partition consumer: AsyncClose after k delivered messages (k = 0..all), slow or eager
// reader, faults in flight; then Close twice.
func verifHarness_C12_partitionConsumer() {
	c := vConsScenario(0)
	c.closeAfter = vChoose("closeAfter", 5)
	r := vRunConsumer(c)
	r.assertC03(c.start, false)
	_, okM := <-r.pc.messages
	_, okE := <-r.pc.errors
	vAssert(!okM && !okE, "consumer-channels-closed")
	vAssert(r.pc.Close() == nil, "second-close-harmless")
	r.pc.AsyncClose()
	vReach()
}

// offset manager: marks, auto-commit ticker, Close while a commit may be in flight; the
// coordinator accepts, rejects or is unreachable.
func verifHarness_C12_offsetManager() {
	vConfig("delay", 1)
	vConfig("ticks", 2)
	conf := NewConfig()
	conf.Consumer.Offsets.AutoCommit.Enable = vChoose("autoCommit", 2) == 1
	conf.Consumer.Offsets.Retry.Max = vChoose("retryMax", 2)
	conf.Metadata.Retry.Max = 0
	conf.Consumer.Return.Errors = true
	cl := vNewCluster(conf, 1, 1, 0)
	client := &vFakeClient{conf: conf, cl: cl}
	mode := vChoose("coordinator", 3) // accepts, rejects, transport failure
	commits := 0
	vOverride("(*Broker).FetchOffset", func(b *Broker, req *OffsetFetchRequest) (*OffsetFetchResponse, error) {
		return &OffsetFetchResponse{Blocks: map[string]map[int32]*OffsetFetchResponseBlock{"t": {0: {Offset: 5}}}}, nil
	})
	vOverride("(*Broker).CommitOffset", func(b *Broker, req *OffsetCommitRequest) (*OffsetCommitResponse, error) {
		commits++
		vYield()
		switch mode {
		case 1:
			return &OffsetCommitResponse{Errors: map[string]map[int32]KError{"t": {0: ErrOffsetMetadataTooLarge}}}, nil
		case 2:
			return nil, errVConn
		}
		return &OffsetCommitResponse{Errors: map[string]map[int32]KError{"t": {0: ErrNoError}}}, nil
	})
	vOverride("(*Broker).Close", func(b *Broker) error { return nil })
	om, err := newOffsetManagerFromClient("g", "m", 1, client)
	vAssume(err == nil)
	pomi, err := om.ManagePartition("t", 0)
	vAssume(err == nil)
	pom := pomi.(*partitionOffsetManager)
	errsDone := make(chan int, 1)
	go func() {
		n := 0
		for range pom.Errors() {
			n++
		}
		errsDone <- n
	}()
	pom.MarkOffset(10, "a")
	if vChoose("manualCommit", 2) == 1 {
		om.Commit()
	}
	pom.MarkOffset(11, "b")
	pom.AsyncClose()
	vAssert(om.Close() == nil, "close-returns")
	vAssert(om.Close() == nil, "second-close-harmless")
	<-errsDone // the errors channel was closed
	vAssert(om.findPOM("t", 0) == nil, "partition-manager-released")
	if conf.Consumer.Offsets.AutoCommit.Enable && mode == 0 {
		vAssert(commits >= 1, "final-flush-attempted")
	}
	vReach()
}

// client: Close stops the background updater; a second Close reports ErrClosedClient and
// touches nothing.
func verifHarness_C12_client() {
	vConfig("delay", 1)
	vConfig("ticks", 2)
	conf := NewConfig()
	conf.Metadata.Retry.Backoff = 0
	conf.Metadata.Retry.Max = 0
	if vChoose("backgroundRefresh", 2) == 0 {
		conf.Metadata.RefreshFrequency = 0
	}
	c := vNewClientLiteral(conf)
	c.brokers[1] = &Broker{id: 1, addr: "a:1"}
	c.metadataTopics["t"] = none{}
	refreshes := 0
	vOverride("safeAsyncClose", func(b *Broker) {})
	vOverride("(*Broker).Open", func(b *Broker, conf *Config) error { return nil })
	vOverride("(*Broker).Close", func(b *Broker) error { return nil })
	vOverride("(*Broker).GetMetadata", func(b *Broker, req *MetadataRequest) (*MetadataResponse, error) {
		refreshes++
		vYield()
		if vChoose("metadataAnswer", 2) == 1 {
			return nil, errVConn
		}
		return &MetadataResponse{Brokers: []*Broker{{id: 1, addr: "a:1"}}, Topics: []*TopicMetadata{{Name: "t", Partitions: []*PartitionMetadata{{ID: 0, Leader: 1}}}}}, nil
	})
	go withRecover(c.backgroundMetadataUpdater)
	if vChoose("readBeforeClose", 2) == 1 {
		_, _ = c.Partitions("t")
	}
	vAssert(c.Close() == nil, "close-returns")
	_, stillOpen := <-c.closed
	vAssert(!stillOpen, "background-updater-stopped")
	vAssert(c.Close() == ErrClosedClient, "second-close-reports-closed")
	vAssert(c.Closed(), "closed")
	_, err := c.Partitions("t")
	vAssert(err == ErrClosedClient, "reads-after-close-are-rejected")
	vReach()
}

// a Client whose group coordinator cannot be found (for good, or for the first few look-ups)
type vNoCoordClient struct {
	vFakeClient
	failures int // -1: for good
	lookups  int
	parked   chan struct{}
}

func (c *vNoCoordClient) fail() bool {
	c.lookups++
	if c.lookups == 1 {
		select {
		case c.parked <- struct{}{}:
		default:
		}
	}
	if c.failures < 0 {
		return true
	}
	if c.failures > 0 {
		c.failures--
		return true
	}
	return false
}
func (c *vNoCoordClient) Coordinator(g string) (*Broker, error) {
	if c.fail() {
		return nil, ErrConsumerCoordinatorNotAvailable
	}
	return c.cl.brokers[0], nil
}
func (c *vNoCoordClient) RefreshCoordinator(g string) error {
	if c.fail() {
		return ErrConsumerCoordinatorNotAvailable
	}
	return nil
}

// consumer group: Close while Consume is parked in the coordinator look-up retry loop (the
// cluster is unreachable for good or for a while), the application's context not cancelled:
// Close returns, the blocked Consume returns, the errors channel is closed, the client is
// closed once and a second Close is harmless.
func verifHarness_C12_groupCoordinatorUnreachable() {
	vConfig("delay", 1)
	vConfig("ticks", 6)
	vConfig("hang", 1) // a retry loop that no longer notices Close is a hang, not an exhausted bound
	conf := NewConfig()
	conf.Version = V0_10_2_0
	conf.Consumer.Return.Errors = true
	conf.Consumer.Group.Rebalance.Retry.Max = 1 + vChoose("retryMax", 2)
	conf.Consumer.Group.Rebalance.Retry.Backoff = time.Duration(vChoose("backoff", 2)) * time.Millisecond
	cl := vNewCluster(conf, 1, 2, 0)
	client := &vNoCoordClient{vFakeClient: vFakeClient{conf: conf, cl: cl}, parked: make(chan struct{}, 1)}
	client.failures = []int{-1, 2, 4}[vChoose("unreachable", 3)]
	joins := 0
	vOverride("(*Broker).JoinGroup", func(b *Broker, req *JoinGroupRequest) (*JoinGroupResponse, error) {
		joins++
		return nil, errVConn // the coordinator, once found, does not answer either
	})
	vOverride("(*Broker).Close", func(b *Broker) error { return nil })
	g := &consumerGroup{client: client, consumer: &vFakeConsumer{outOfRange: map[int64]bool{}}, config: conf, groupID: "g",
		errors: make(chan error, 8), closed: make(chan none)}
	h := &vHandler{co: &vCoord{committed: map[int32]int64{}}, claims: map[int32]int{}, initial: map[int32]int64{}, marked: map[int32]int64{}}
	done := make(chan error, 1)
	go func() {
		done <- g.Consume(context.Background(), []string{"t"}, h)
	}()
	<-client.parked // Consume is now inside the look-up / retry loop
	vAssert(g.Close() == nil || true, "close-returns")
	err := <-done
	vAssert(err != nil, "parked-consume-returns-with-an-error")
	_, open := <-g.errors
	vAssert(!open, "errors-channel-closed")
	vAssert(client.nClose == 1, "client-closed-once")
	_ = g.Close()
	vAssert(client.nClose == 1, "second-close-harmless")
	vReach()
}
