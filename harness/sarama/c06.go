//go:build verif

package sarama

// C06 — committed offsets are marked offsets, and no mark is lost.
//
// Inductive step (P-step): from an ARBITRARY state of one partitionOffsetManager and of the
// ghost variables below that satisfies the invariant, run ONE real operation with arbitrary
// arguments and show the invariant and the step contract afterwards. Ghost state:
//   st     = pair the coordinator currently stores (initially what fetchInitialOffset returned)
//   snap   = pair carried by the one commit in flight (snapSet=false: none)
//   last   = argument pair of the last effective MarkOffset/ResetOffset
//   reset  = an effective ResetOffset happened since st was last written
//   resetS = an effective ResetOffset happened since the in-flight snapshot was taken
//
//   I1  !dirty                 => (offset,metadata) == st
//   I2  snapSet                => dirty && (!resetS => snap.offset <= offset)
//   I3  dirty                  => (offset,metadata) == last
//   I4  !reset                 => st.offset <= offset && (snapSet => st.offset <= snap.offset)
//   I5  resetS                 => reset && snapSet

type vC06 struct {
	om  *offsetManager
	pom *partitionOffsetManager
	b   *Broker

	stOff, snapOff, lastOff int64
	stMd, snapMd, lastMd    string
	snapSet, reset, resetS  bool
}

func vC06Inv(g *vC06) bool {
	p := g.pom
	i1 := p.dirty || (p.offset == g.stOff && p.metadata == g.stMd)
	i2 := !g.snapSet || (p.dirty && (g.resetS || g.snapOff <= p.offset))
	i3 := !p.dirty || (p.offset == g.lastOff && p.metadata == g.lastMd)
	i4 := g.reset || (g.stOff <= p.offset && (!g.snapSet || g.stOff <= g.snapOff))
	i5 := !g.resetS || (g.reset && g.snapSet)
	return i1 && i2 && i3 && i4 && i5
}

func vC06State() *vC06 {
	conf := NewConfig()
	conf.Consumer.Return.Errors = vBool("returnErrors")
	conf.Consumer.Offsets.Initial = vInt64("initial")
	if vBool("retention") {
		conf.Consumer.Offsets.Retention = 1000000000
	}
	om := &offsetManager{conf: conf, group: "g", poms: map[string]map[int32]*partitionOffsetManager{},
		memberID: "m", generation: vInt32("generation")}
	pom := &partitionOffsetManager{parent: om, topic: "t", partition: 3,
		errors: make(chan *ConsumerError, 16),
		offset: vInt64("offset"), metadata: vString("md", 1), dirty: vBool("dirty"), done: vBool("done")}
	om.poms["t"] = map[int32]*partitionOffsetManager{3: pom}
	g := &vC06{om: om, pom: pom, b: &Broker{}}
	om.broker = g.b
	g.stOff, g.stMd = vInt64("stOff"), vString("stMd", 1)
	g.snapSet, g.snapOff, g.snapMd = vBool("snapSet"), vInt64("snapOff"), vString("snapMd", 1)
	g.lastOff, g.lastMd = vInt64("lastOff"), vString("lastMd", 1)
	g.reset, g.resetS = vBool("reset"), vBool("resetS")
	return g
}

func (g *vC06) mark(o int64, m string) {
	before := g.pom.offset
	g.pom.MarkOffset(o, m)
	vAssert(g.pom.offset >= before, "mark-never-lowers")
	if o > before {
		g.lastOff, g.lastMd = o, m
		vAssert(g.pom.offset == o && g.pom.metadata == m && g.pom.dirty, "mark-takes-effect")
	} else {
		vAssert(g.pom.offset == before, "stale-mark-ignored")
	}
}

func (g *vC06) resetTo(o int64, m string) {
	before := g.pom.offset
	g.pom.ResetOffset(o, m)
	vAssert(g.pom.offset <= before, "reset-never-raises")
	if o <= before {
		g.lastOff, g.lastMd = o, m
		g.reset = true
		if g.snapSet {
			g.resetS = true
		}
		vAssert(g.pom.offset == o && g.pom.metadata == m && g.pom.dirty, "reset-takes-effect")
	}
}

// beginCommit runs the real constructRequest and takes the ghost snapshot.
func (g *vC06) beginCommit() *OffsetCommitRequest {
	wasDirty, off, md := g.pom.dirty, g.pom.offset, g.pom.metadata
	req := g.om.constructRequest()
	vAssert(!vHeld(&g.pom.lock), "pom-lock-released")
	if !wasDirty {
		vAssert(req == nil, "clean-partition-not-committed")
		return nil
	}
	vAssert(req != nil && req.blocks["t"] != nil && req.blocks["t"][3] != nil, "dirty-partition-included")
	blk := req.blocks["t"][3]
	vAssert(blk.offset == off && blk.metadata == md, "commit-carries-pending-pair")
	vAssert(blk.offset == g.lastOff && blk.metadata == g.lastMd, "commit-carries-a-marked-pair")
	vAssert(req.ConsumerGroup == "g" && req.ConsumerID == "m" && req.ConsumerGroupGeneration == g.om.generation, "commit-identity")
	if g.om.conf.Consumer.Offsets.Retention == 0 {
		vAssert(req.Version == 1 && blk.timestamp == ReceiveTime, "v1-without-retention")
	} else {
		vAssert(req.Version == 2 && req.RetentionTime == 1000, "v2-with-retention-ms")
	}
	g.snapSet, g.snapOff, g.snapMd, g.resetS = true, off, md, false
	return req
}

func (g *vC06) snapRequest() *OffsetCommitRequest {
	req := &OffsetCommitRequest{Version: 1, ConsumerGroup: "g"}
	req.AddBlock("t", 3, g.snapOff, ReceiveTime, g.snapMd)
	return req
}

// deliver runs the real handleResponse for the in-flight commit with an arbitrary verdict.
func (g *vC06) deliver(req *OffsetCommitRequest) {
	resp := &OffsetCommitResponse{Errors: map[string]map[int32]KError{}}
	verdict := KError(vInt16("verdict"))
	switch vChoose("respShape", 3) {
	case 0:
		resp.Errors["t"] = map[int32]KError{3: verdict}
	case 1: // block for this partition missing
		resp.Errors["t"] = map[int32]KError{4: verdict}
		verdict = ErrUnknown
	case 2: // topic missing
		verdict = ErrUnknown
	}
	oldSt, oldReset := g.stOff, g.reset
	if verdict == ErrNoError {
		// the coordinator stored the snapshot
		g.stOff, g.stMd = g.snapOff, g.snapMd
		g.reset = g.resetS
		vAssert(g.stOff >= oldSt || oldReset, "stored-offset-never-goes-back-without-reset")
	}
	wasDirty := g.pom.dirty
	g.om.handleResponse(g.b, req, resp)
	g.snapSet, g.resetS = false, false
	if verdict != ErrNoError {
		vAssert(g.pom.dirty == wasDirty, "failed-commit-keeps-dirty")
	}
	if !g.pom.dirty {
		vAssert(g.pom.offset == g.stOff && g.pom.metadata == g.stMd, "clean-means-stored")
	}
	vCover("accepted", verdict == ErrNoError)
	vCover("rejected", verdict != ErrNoError)
}

func verifHarness_C06_step() {
	g := vC06State()
	vAssume(vC06Inv(g))
	switch vChoose("op", 7) {
	case 0:
		g.mark(vInt64("argOff"), vString("argMd", 1))
	case 1:
		g.resetTo(vInt64("argOff"), vString("argMd", 1))
	case 2: // begin a commit (one committer at a time)
		vAssume(!g.snapSet)
		g.beginCommit()
	case 3: // response to the commit in flight
		vAssume(g.snapSet)
		g.deliver(g.snapRequest())
	case 4: // transport failure of the commit in flight
		vAssume(g.snapSet)
		wasDirty := g.pom.dirty
		g.om.handleError(ErrOutOfBrokers)
		g.om.releaseCoordinator(g.b)
		g.snapSet, g.resetS = false, false
		vAssert(g.pom.dirty == wasDirty, "transport-failure-keeps-dirty")
	case 5:
		off, md := g.pom.NextOffset()
		if g.pom.offset >= 0 {
			vAssert(off == g.pom.offset && md == g.pom.metadata, "next-offset-is-pending-position")
		} else {
			vAssert(off == g.om.conf.Consumer.Offsets.Initial && md == "", "next-offset-falls-back-to-initial")
		}
	case 6: // close the partition manager and try to release it
		vAssume(!g.snapSet)
		g.pom.AsyncClose()
		vAssert(g.pom.done, "closed")
		left := g.om.releasePOMs(false)
		if g.pom.dirty {
			vAssert(left == 1 && g.om.findPOM("t", 3) == g.pom, "dirty-pom-kept-for-final-commit")
		} else {
			vAssert(left == 0 && g.om.findPOM("t", 3) == nil, "clean-pom-released")
		}
	}
	vAssert(vC06Inv(g), "invariant-preserved")
	vReach()
}

// Bounded sequences from the real initial state (sanity of the invariant + the Close contract):
// K operations, then the Close-style final flush with an accepting coordinator.
func verifHarness_C06_sequences() {
	K := 4
	if vTier() > 0 {
		K = 6
	}
	g := vC06State()
	// real initial state: clean, position = what the coordinator stores
	g.pom.dirty, g.pom.done = false, false
	g.stOff, g.stMd = g.pom.offset, g.pom.metadata
	g.snapSet, g.reset, g.resetS = false, false, false
	anyEffective := false
	var req *OffsetCommitRequest
	for i := 0; i < K; i++ {
		switch vChoose("op", 5) {
		case 0:
			before := g.pom.offset
			o := vInt64("argOff")
			g.mark(o, vString("argMd", 1))
			anyEffective = anyEffective || o > before
		case 1:
			before := g.pom.offset
			o := vInt64("argOff")
			g.resetTo(o, vString("argMd", 1))
			anyEffective = anyEffective || o <= before
		case 2:
			vAssume(!g.snapSet)
			req = g.beginCommit()
		case 3:
			vAssume(g.snapSet)
			g.deliver(req)
		case 4:
			vAssume(g.snapSet)
			g.om.handleError(ErrOutOfBrokers)
			g.snapSet, g.resetS = false, false
		}
		vAssert(vC06Inv(g), "invariant-on-reachable-state")
	}
	// Close with auto-commit: an outstanding commit is answered first, then the final flush
	if g.snapSet {
		g.om.handleError(ErrOutOfBrokers)
		g.snapSet, g.resetS = false, false
	}
	g.pom.AsyncClose()
	for attempt := 0; attempt <= 1; attempt++ {
		if r := g.beginCommit(); r != nil {
			resp := &OffsetCommitResponse{Errors: map[string]map[int32]KError{"t": {3: ErrNoError}}}
			g.stOff, g.stMd, g.reset = g.snapOff, g.snapMd, g.resetS
			g.om.handleResponse(g.b, r, resp)
			g.snapSet, g.resetS = false, false
		}
		if g.om.releasePOMs(false) == 0 {
			break
		}
	}
	vAssert(!g.pom.dirty, "final-flush-cleans")
	vAssert(g.om.findPOM("t", 3) == nil, "released-after-final-flush")
	if anyEffective {
		vAssert(g.stOff == g.lastOff && g.stMd == g.lastMd, "stored-equals-latest-mark")
	}
	vAssert(g.stOff == g.pom.offset && g.stMd == g.pom.metadata, "stored-equals-pending-position")
	vReach()
}

// ---------- P-sys: the real offset manager (mainLoop, Commit, Close with its final flush)
// against a simulated coordinator that may move and may fail one commit ----------

type vCoordClient struct {
	vFakeClient
	cached, trueCoord int
	refreshes         int
}

func (c *vCoordClient) Coordinator(g string) (*Broker, error) { return c.cl.brokers[c.cached], nil }
func (c *vCoordClient) RefreshCoordinator(g string) error {
	c.refreshes++
	c.cached = c.trueCoord
	return nil
}

type vMark struct {
	off int64
	md  string
}

// verifHarness_C06_sysClose: marks on two partitions interleaved with an optional manual Commit,
// then Close. The group coordinator may move once (the old one then answers "not coordinator" /
// "coordinator not available" for every block) and one commit may meet a fault; Retry.Max
// leaves enough final attempts for an accepting coordinator to be reached. When Close returns
// the coordinator's store holds the latest mark of every partition, everything it was ever
// asked to store was a marked pair, and per partition the stored offset never went backwards.
func verifHarness_C06_sysClose() {
	vConfig("delay", 1)
	vConfig("ticks", 2)
	conf := NewConfig()
	conf.Consumer.Offsets.AutoCommit.Enable = true
	conf.Consumer.Offsets.Retry.Max = 3
	conf.Metadata.Retry.Max = 0
	conf.Consumer.Return.Errors = true
	cl := vNewCluster(conf, 2, 2, 0)
	client := &vCoordClient{vFakeClient: vFakeClient{conf: conf, cl: cl}}
	client.trueCoord = vChoose("coordinator", 2)
	client.cached = client.trueCoord
	moves, faults := 1, 1
	movedCode := []KError{ErrNotCoordinatorForConsumer, ErrConsumerCoordinatorNotAvailable}[vChoose("movedCode", 2)]
	store := map[int32]vMark{0: {5, ""}, 1: {5, ""}}
	marks := map[int32][]vMark{0: {{5, ""}}, 1: {{5, ""}}}
	faultKinds := ""
	vOverride("(*Broker).FetchOffset", func(b *Broker, req *OffsetFetchRequest) (*OffsetFetchResponse, error) {
		return &OffsetFetchResponse{Blocks: map[string]map[int32]*OffsetFetchResponseBlock{"t": {0: {Offset: 5}, 1: {Offset: 5}}}}, nil
	})
	vOverride("(*Broker).CommitOffset", func(b *Broker, req *OffsetCommitRequest) (*OffsetCommitResponse, error) {
		if moves > 0 && vChoose("coordinatorMoves", 2) == 1 {
			moves--
			client.trueCoord = 1 - client.trueCoord
			faultKinds += "M"
		}
		vYield()
		resp := &OffsetCommitResponse{Errors: map[string]map[int32]KError{"t": {}}}
		if int(b.id) != client.trueCoord {
			for p := range req.blocks["t"] {
				resp.Errors["t"][p] = movedCode
			}
			return resp, nil
		}
		kind := 0
		if faults > 0 {
			kind = vChoose("commitFault", 6)
			if kind != 0 {
				faults--
				faultKinds += vItoa(int64(kind))
			}
		}
		if kind == 5 {
			return nil, errVConn
		}
		first := true
		for p := int32(0); p < 2; p++ {
			blk, ok := req.blocks["t"][p]
			if !ok {
				continue
			}
			hit := first && kind != 0
			first = false
			switch {
			case hit && kind == 1:
				resp.Errors["t"][p] = ErrOffsetsLoadInProgress
			case hit && kind == 2:
				resp.Errors["t"][p] = ErrUnknownTopicOrPartition
			case hit && kind == 3:
				resp.Errors["t"][p] = ErrRequestTimedOut
			case hit && kind == 4:
				// the block is missing from the response
			default:
				known := false
				for _, m := range marks[p] {
					if m.off == blk.offset && m.md == blk.metadata {
						known = true
					}
				}
				vAssert(known, "committed-pair-was-marked")
				vAssert(blk.offset >= store[p].off, "stored-offset-never-goes-back")
				store[p] = vMark{blk.offset, blk.metadata}
				resp.Errors["t"][p] = ErrNoError
			}
		}
		return resp, nil
	})
	vOverride("(*Broker).Close", func(b *Broker) error { return nil })
	om, err := newOffsetManagerFromClient("g", "", GroupGenerationUndefined, client)
	vAssume(err == nil)
	var poms [2]*partitionOffsetManager
	for p := int32(0); p < 2; p++ {
		pi, err := om.ManagePartition("t", p)
		vAssume(err == nil)
		poms[p] = pi.(*partitionOffsetManager)
		pp := poms[p]
		go func() {
			for range pp.Errors() {
			}
		}()
	}
	mark := func(p int32, off int64, md string) {
		marks[p] = append(marks[p], vMark{off, md})
		poms[p].MarkOffset(off, md)
	}
	mark(0, 10, "a")
	if vChoose("manualCommit", 2) == 1 {
		om.Commit()
	}
	mark(1, 20, "b")
	if vChoose("secondMark", 2) == 1 {
		mark(0, 12, "c")
	}
	vAssert(om.Close() == nil, "close-returns")
	vClass(vSprintf("faults=%s", faultKinds))
	for p := int32(0); p < 2; p++ {
		last := marks[p][len(marks[p])-1]
		vAssert(store[p] == last, "stored-equals-latest-mark-when-close-returns")
	}
	vCover("coordinator-moved", len(faultKinds) > 0 && faultKinds[0] == 'M')
	vReach()
}
