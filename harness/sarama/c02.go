//go:build verif

package sarama

// C02 P-sys: per-partition submission order survives retries, leader moves and disconnects.
func verifHarness_C02_sysFaults() {
	r := vRunProducer(vProdScenario(0))
	r.assertC02()
	vReach()
}

func verifHarness_C02_sysSchedules() {
	r := vRunProducer(vProdScenario(1))
	r.assertC02()
	vReach()
}

// The configuration the property names: no retries, two partitions on one broker, three
// messages (two for the same partition), one fault, more scheduling freedom.
func verifHarness_C02_sysNoRetries() {
	c := vProdCfg{n: 3, parts: 2, brokers: 1, faults: 1, faultMenu: vfKinds, retryMax: 0, delay: 1,
		partsOf: []int32{0, 1, 1}}
	if vTier() > 0 {
		c.delay = 3
	}
	c.class = "retryMax=0,two-partitions-one-broker"
	r := vRunProducer(c)
	r.assertC02()
	vReach()
}

// A full buffer (Flush.MaxMessages = 1) parks the third message in waitForSpace while the
// first is in flight and the second is buffered; one fault, schedules within one delay.
func verifHarness_C02_sysWaitForSpace() {
	c := vProdCfg{n: 3, parts: 1, brokers: 1, faults: 1, faultMenu: vfKinds, delay: 1, flushMaxMessages: 1}
	c.holdFirst = vChoose("slowFirstResponse", 2) == 1
	c.retryMax = 1 + vChoose("retryMax", 2)
	c.idem = false
	if vTier() > 0 {
		c.n, c.faults = 4, 2
	}
	c.class = vSprintf("waitForSpace,retryMax=%d", c.retryMax)
	r := vRunProducer(c)
	r.assertC02()
	r.assertC01()
	vReach()
}
