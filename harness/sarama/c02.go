//go:build verif

package sarama

import "time"

// C02 P-sys: per-partition submission order survives retries, leader moves and disconnects.
func verifHarness_C02_sysFaults() {
	r := vRunProducer(vProdScenario(0))
	r.assertC02()
	vReach()
}

func verifHarness_C02_sysSchedules() {
	r := vRunProducer(vProdScenario(1))
	r.assertC02()
	vReach()
}

// The configuration the property names: no retries, two partitions on one broker, three
// messages (two for the same partition), one fault, more scheduling freedom.
func verifHarness_C02_sysNoRetries() {
	c := vProdCfg{n: 3, parts: 2, brokers: 1, faults: 1, faultMenu: vfKinds, retryMax: 0, delay: 1,
		partsOf: []int32{0, 1, 1}}
	if vTier() > 0 {
		c.delay = 2
	}
	c.class = "retryMax=0,two-partitions-one-broker"
	r := vRunProducer(c)
	r.assertC02()
	vReach()
}

// A full buffer (Flush.MaxMessages = 1) parks the third message in waitForSpace while the
// first is in flight and the second is buffered; one fault, schedules within one delay.
func verifHarness_C02_sysWaitForSpace() {
	c := vProdCfg{n: 3, parts: 1, brokers: 1, faults: 1, faultMenu: vfKinds, delay: 1, flushMaxMessages: 1}
	c.holdFirst = vChoose("slowFirstResponse", 2) == 1
	c.retryMax = 1 + vChoose("retryMax", 2)
	c.idem = false
	if vTier() > 0 {
		c.n = 4
	}
	c.class = vSprintf("waitForSpace,retryMax=%d", c.retryMax)
	r := vRunProducer(c)
	r.assertC02()
	r.assertC01()
	vReach()
}

// ---------- P-step on the partition producer's retry state machine ----------

// a stand-in for one brokerProducer: what the real one does to the order of one partition's
// messages. Messages are taken into a pending list (buffer + in-flight request); a response
// either acknowledges the oldest or refuses everything pending, after which every message that
// arrives is bounced until the partition producer's fin marker has come by (currentRetries).
type vBPModel struct {
	in       chan *ProducerMessage
	retrying bool
	pending  []*ProducerMessage
	heldFin  *ProducerMessage // a fin marker this broker producer has not got round to yet
}

// verifHarness_C02_stepPartitionProducer drives the real partitionProducer.dispatch goroutine
// (retry levels, high watermark, fin/chaser markers, per-level retry buffers, flushRetryBuffers,
// leader re-selection) between a feeder and model brokerProducers. n messages are submitted in
// order (3, thorough 4); the brokers refuse pending messages up to 2 times at arbitrary moments and get round to fin markers arbitrarily late, so
// messages bounced twice, once and not at all are around at the same time; fresh input and the
// retry path merge in every possible order. Whatever happens, the messages reach the log in
// submission order.
func verifHarness_C02_stepPartitionProducer() {
	vConfig("delay", 0)
	n := 3
	rejectsLeft := 2
	if vTier() > 0 {
		n = 4
	}
	conf := NewConfig()
	conf.Producer.Retry.Max = 4
	conf.Producer.Retry.Backoff = 0
	conf.ChannelBufferSize = 0
	cl := vNewCluster(conf, 1, 1, 0)
	client := &vFakeClient{conf: conf, cl: cl}
	p := &asyncProducer{client: client, conf: conf, brokers: map[*Broker]*brokerProducer{}, brokerRefs: map[*brokerProducer]int{},
		txnmgr: &transactionManager{producerID: noProducerID, producerEpoch: noProducerEpoch}}
	var bps []*vBPModel
	vOverride("(*asyncProducer).getBrokerProducer", func(p *asyncProducer, b *Broker) *brokerProducer {
		m := &vBPModel{in: make(chan *ProducerMessage, 64)}
		bps = append(bps, m)
		return &brokerProducer{parent: p, broker: b, input: m.in}
	})
	vOverride("(*asyncProducer).unrefBrokerProducer", func(p *asyncProducer, b *Broker, bp *brokerProducer) {})
	input := p.newPartitionProducer("t", 0)
	var retryQ []*ProducerMessage
	var log []int
	bounce := func(m *ProducerMessage) {
		m.retries++
		retryQ = append(retryQ, m)
	}
	// a model broker takes what the partition producer sent it (eagerly: taking later changes
	// nothing about the order, since a refusal bounces pending and later messages alike)
	// A model broker takes the data messages the partition producer sent it eagerly (taking
	// them later changes nothing about the order: a refusal bounces pending and later messages
	// alike). A fin marker is different: the broker producer it was sent to has been abandoned
	// and may get round to it arbitrarily late, while newer copies already travel through its
	// successor - so handling a fin is an action of its own.
	drain := func() {
		<-time.After(time.Millisecond) // the partition producer finishes what it is doing
		for _, b := range bps {
			for len(b.in) > 0 && b.heldFin == nil {
				m := <-b.in
				switch {
				case m.flags&syn == syn:
					b.retrying = false
				case m.flags&fin == fin:
					b.heldFin = m
				case b.retrying:
					bounce(m)
				default:
					b.pending = append(b.pending, m)
				}
			}
		}
	}
	next := 0
	for steps := 0; len(log) < n; steps++ {
		vAssume(steps < 40)
		// enabled actions: 0 feed fresh, 1 feed from the retry path, 2+2k broker k answers, 3+2k broker k handles its fin
		var enabled []int
		if next < n {
			enabled = append(enabled, 0)
		}
		if len(retryQ) > 0 {
			enabled = append(enabled, 1)
		}
		for k, b := range bps {
			if len(b.pending) > 0 {
				enabled = append(enabled, 2+2*k)
			}
			if b.heldFin != nil {
				enabled = append(enabled, 3+2*k)
			}
		}
		vAssert(len(enabled) > 0, "pipeline-not-stuck")
		if len(enabled) == 0 {
			return
		}
		act := enabled[vChoose("action", len(enabled))]
		switch {
		case act == 0:
			input <- &ProducerMessage{Topic: "t", Partition: 0, Metadata: next}
			next++
			drain()
		case act == 1:
			m := retryQ[0]
			retryQ = retryQ[1:]
			input <- m
			drain()
		case act%2 == 1:
			b := bps[(act-3)/2]
			bounce(b.heldFin) // retrying or not, the marker goes back; it ends the bouncing
			b.heldFin = nil
			b.retrying = false
			drain()
		default:
			b := bps[(act-2)/2]
			if rejectsLeft > 0 && vChoose("refuse", 2) == 1 {
				rejectsLeft--
				for _, m := range b.pending {
					bounce(m)
				}
				b.pending = nil
				b.retrying = true
			} else {
				log = append(log, b.pending[0].Metadata.(int))
				b.pending = b.pending[1:]
			}
		}
	}
	for i := range log {
		vAssert(log[i] == i, "log-in-submission-order")
	}
	vCover("two-levels-deep", rejectsLeft == 0)
	vReach()
}
