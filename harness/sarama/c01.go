//go:build verif

package sarama

// vProdScenario draws the configuration of the producer scenario. mode 0: many fault scripts
// under the canonical schedule; mode 1: fewer faults, schedules within one delay.
func vProdScenario(mode int) vProdCfg {
	c := vProdCfg{n: 2, faultMenu: vfKinds}
	switch {
	case vTier() == 0 && mode == 0:
		c.faults, c.delay = 2, 0
	case vTier() == 0 && mode == 1:
		c.faults, c.delay = 1, 1
	case mode == 0:
		c.n, c.faults, c.delay = 3, 3, 0
	default:
		c.n, c.faults, c.delay = 3, 2, 2
	}
	c.retryMax = vChoose("retryMax", 3)
	topo := vChoose("topology", 3)
	switch topo {
	case 0:
		c.parts, c.brokers = 1, 1
	case 1:
		c.parts, c.brokers = 2, 1
	case 2:
		c.parts, c.brokers = 2, 2
	}
	c.idem = vChoose("idempotent", 2) == 1
	if c.idem && c.retryMax == 0 {
		vAssume(false) // Validate() rejects idempotent without retries
	}
	flush := vChoose("flush", 2)
	if flush == 1 {
		// count trigger of 2 plus the frequency timer (so a lone message is still flushed)
		c.flushMessages = 2
		c.flushFrequency = true
	}
	if mode == 0 {
		c.chanBuf = vChoose("chanBuf", 2)
	}
	vClass(vSprintf("retryMax=%d,topology=%d,idem=%v,flush=%d", c.retryMax, topo, c.idem, flush))
	return c
}

// C01 P-sys: every submitted message gets exactly one terminal outcome; Close completes
// (a deadlock anywhere is reported by the engine).
func verifHarness_C01_sysFaults() {
	r := vRunProducer(vProdScenario(0))
	r.assertC01()
	vCover("some-error-event", len(r.events) > 0 && r.events[0].err != nil)
	vReach()
}

func verifHarness_C01_sysSchedules() {
	r := vRunProducer(vProdScenario(1))
	r.assertC01()
	vReach()
}
