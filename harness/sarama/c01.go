//go:build verif

package sarama

import "time"

// vProdScenario draws the configuration of the producer scenario. mode 0: many fault scripts
// under the canonical schedule; mode 1: fewer faults, schedules within one delay.
func vProdScenario(mode int) vProdCfg { return vProdScenarioSized(mode, vTier() > 0) }

// vProdScenarioSized: big selects the thorough tier's sizes (harnesses that multiply the
// scenario by further choices keep the small sizes in both tiers).
func vProdScenarioSized(mode int, big bool) vProdCfg {
	c := vProdCfg{n: 2, faultMenu: vfKinds}
	switch {
	case !big && mode == 0:
		c.faults, c.delay = 2, 0
	case !big && mode == 1:
		c.faults, c.delay = 1, 1
	case mode == 0:
		c.n, c.faults, c.delay = 3, 3, 0
	default:
		// one scheduling delay with more messages and faults (two delays: > 10^7 schedules even for one configuration)
		c.n, c.faults, c.delay = 3, 2, 1
	}
	c.retryMax = vChoose("retryMax", 3)
	topo := vChoose("topology", 3)
	switch topo {
	case 0:
		c.parts, c.brokers = 1, 1
	case 1:
		c.parts, c.brokers = 2, 1
	case 2:
		c.parts, c.brokers = 2, 2
	}
	c.idem = vChoose("idempotent", 2) == 1
	if c.idem && c.retryMax == 0 {
		vAssume(false) // Validate() rejects idempotent without retries
	}
	flush := vChoose("flush", 2)
	if flush == 1 {
		// count trigger of 2 plus the frequency timer (so a lone message is still flushed)
		c.flushMessages = 2
		c.flushFrequency = true
	}
	if mode == 0 {
		c.chanBuf = vChoose("chanBuf", 2)
		// a slow broker: the first request is answered only after everything was submitted
		c.holdFirst = vChoose("slowFirstResponse", 2) == 1
	}
	c.class = vSprintf("retryMax=%d,topology=%d,idem=%v,flush=%d", c.retryMax, topo, c.idem, flush)
	vClass(c.class)
	return c
}

// C01 P-sys: every submitted message gets exactly one terminal outcome; Close completes
// (a deadlock anywhere is reported by the engine).
func verifHarness_C01_sysFaults() {
	r := vRunProducer(vProdScenario(0))
	r.assertC01()
	vCover("some-error-event", len(r.events) > 0 && r.events[0].err != nil)
	vReach()
}

func verifHarness_C01_sysSchedules() {
	r := vRunProducer(vProdScenario(1))
	r.assertC01()
	vReach()
}

// ---------- C01 P-step (L5): accounting of one produce response, for EVERY error code ----------
//
// A sent set of 1-2 partitions x 1-2 messages and 0-1 buffered message; the response carries,
// per partition, a missing block or a block whose error code is a FREE int16. After the real
// handleResponse every message is held by exactly one place: Successes, Errors, the retry
// queue, a batch handed to retryBatch, or still buffered; inFlight equals what is not terminal.
func verifHarness_C01_stepHandleResponse() {
	vConfig("delay", 0)
	conf := NewConfig()
	conf.Producer.Return.Successes = true
	conf.Producer.Return.Errors = true
	conf.Producer.Retry.Max = vChoose("retryMax", 3)
	idem := vChoose("idempotent", 2) == 1
	if idem {
		vAssume(conf.Producer.Retry.Max >= 1)
		conf.Producer.Idempotent = true
		conf.Version = V0_11_0_0
	}
	cl := vNewCluster(conf, 1, 2, 0)
	client := &vFakeClient{conf: conf, cl: cl}
	p := &asyncProducer{client: client, conf: conf,
		errors: make(chan *ProducerError, 16), successes: make(chan *ProducerMessage, 16), retries: make(chan *ProducerMessage, 16),
		input: make(chan *ProducerMessage, 16), brokers: map[*Broker]*brokerProducer{}, brokerRefs: map[*brokerProducer]int{},
	}
	txn, err := newTransactionManager(conf, client) // the real constructor (InitProducerID on the fake client)
	vAssume(err == nil)
	p.txnmgr = txn
	out := make(chan *produceSet, 8)
	bp := &brokerProducer{parent: p, broker: cl.brokers[0], input: make(chan *ProducerMessage, 8), output: out,
		stopchan: make(chan struct{}), currentRetries: map[string]map[int32]error{}}
	bp.buffer = newProduceSet(p)
	if conf.Producer.Retry.Max <= 0 {
		bp.abandoned = make(chan struct{})
	}
	p.brokers[cl.brokers[0]] = bp
	p.brokerRefs[bp] = 1
	vOverride("(*Broker).Close", func(b *Broker) error { return nil })
	sent := newProduceSet(p)
	var all []*ProducerMessage
	nParts := 1 + vChoose("partitions", 2)
	for part := 0; part < nParts; part++ {
		nm := 1 + vChoose("messages", 2)
		for i := 0; i < nm; i++ {
			m := &ProducerMessage{Topic: "t", Partition: int32(part), Value: ByteEncoder{byte(len(all) + 1)}}
			if idem {
				m.sequenceNumber, m.producerEpoch, m.hasSequence = int32(i), 0, true
			}
			p.inFlight.Add(1)
			vAssume(sent.add(m) == nil)
			all = append(all, m)
		}
	}
	if vChoose("buffered", 2) == 1 {
		m := &ProducerMessage{Topic: "t", Partition: 0, Value: ByteEncoder{99}}
		if idem {
			m.sequenceNumber, m.hasSequence = 5, true
		}
		p.inFlight.Add(1)
		vAssume(bp.buffer.add(m) == nil)
		all = append(all, m)
	}
	resp := &ProduceResponse{Blocks: map[string]map[int32]*ProduceResponseBlock{"t": {}}}
	for part := 0; part < nParts; part++ {
		if vChoose("blockPresent", 2) == 1 {
			resp.Blocks["t"][int32(part)] = &ProduceResponseBlock{Err: KError(vInt16("code")), Offset: vInt64("base")}
		}
	}
	var res *brokerProducerResponse
	if vChoose("transportError", 2) == 1 {
		res = &brokerProducerResponse{set: sent, err: errVConn}
	} else {
		res = &brokerProducerResponse{set: sent, res: resp}
	}
	bp.handleResponse(res)
	// let retryBatch goroutines (idempotent path) run to completion
	<-time.After(time.Millisecond) // virtual time passes only once every goroutine is blocked or done
	held := map[*ProducerMessage]int{}
	terminal := 0
	for len(p.successes) > 0 {
		held[<-p.successes]++
		terminal++
	}
	for len(p.errors) > 0 {
		held[(<-p.errors).Msg]++
		terminal++
	}
	for len(p.retries) > 0 {
		held[<-p.retries]++
	}
	for len(out) > 0 {
		set := <-out
		set.eachPartition(func(topic string, partition int32, pSet *partitionSet) {
			for _, m := range pSet.msgs {
				held[m]++
			}
		})
	}
	bp.buffer.eachPartition(func(topic string, partition int32, pSet *partitionSet) {
		for _, m := range pSet.msgs {
			held[m]++
		}
	})
	for _, m := range all {
		vAssert(held[m] >= 1, "no-message-lost-by-the-response-handler")
		vAssert(held[m] <= 1, "no-message-held-twice")
	}
	vAssert(vWGCount(&p.inFlight) == len(all)-terminal, "inflight-matches-non-terminal-messages")
	vReach()
}

// C01 (sync producer): SendMessage / SendMessages return, for each message, exactly the
// outcome of that message — over the real pipeline, the simulated cluster and fault scripts.
func verifHarness_C01_syncProducer() {
	vConfig("delay", 0)
	conf := NewConfig()
	conf.Producer.Return.Successes = true
	conf.Producer.Return.Errors = true
	conf.Producer.Retry.Max = vChoose("retryMax", 3)
	conf.Producer.Retry.Backoff = 0
	conf.Producer.Partitioner = NewManualPartitioner
	parts := 1 + vChoose("partitions", 2)
	cl := vNewCluster(conf, 1, parts, 2)
	cl.faultMenu = vfKinds
	cl.release = make(chan struct{})
	client := &vFakeClient{conf: conf, cl: cl}
	vOverride("(*Broker).Produce", cl.produce)
	vOverride("(*Broker).Close", func(b *Broker) error { return nil })
	vAssert(verifyProducerConfig(conf) == nil, "config-accepted")
	pi, err := newAsyncProducer(client)
	vAssume(err == nil)
	sp := newSyncProducerFromAsyncProducer(pi.(*asyncProducer))
	batch := vChoose("batchCall", 2) == 1
	n := 2
	var msgs []*ProducerMessage
	for i := 0; i < n; i++ {
		msgs = append(msgs, &ProducerMessage{Topic: "t", Partition: int32(i % parts), Value: ByteEncoder{byte(i + 1)}})
	}
	outcome := make([]error, n)
	if batch {
		err := sp.SendMessages(msgs)
		if err != nil {
			perrs, ok := err.(ProducerErrors)
			vAssert(ok, "batch-error-is-a-list-of-per-message-errors")
			for _, pe := range perrs {
				found := false
				for i, m := range msgs {
					if pe.Msg == m {
						vAssert(outcome[i] == nil, "one-error-per-message")
						outcome[i] = pe.Err
						found = true
					}
				}
				vAssert(found, "errors-name-submitted-messages")
			}
		}
	} else {
		for i, m := range msgs {
			p, off, err := sp.SendMessage(m)
			outcome[i] = err
			if err == nil {
				vAssert(p == m.Partition && off == m.Offset, "returned-partition-and-offset-are-the-message's")
			} else {
				vAssert(p == -1 && off == -1, "failed-send-returns-no-position")
			}
		}
	}
	// each message's reported outcome is that message's outcome at the broker
	for i, m := range msgs {
		inLog := 0
		for _, e := range cl.logs[m.Partition] {
			if e.id == byte(i+1) {
				inLog++
			}
		}
		if outcome[i] == nil {
			vAssert(inLog >= 1, "success-means-written")
			vAssert(m.Offset >= 0 && int(m.Offset) < len(cl.logs[m.Partition]) && cl.logs[m.Partition][m.Offset].id == byte(i+1), "success-offset-holds-the-message")
		}
	}
	vAssert(sp.Close() == nil, "close-completes")
	vCover("some-failure", outcome[0] != nil || outcome[1] != nil)
	vReach()
}
