//go:build verif

package sarama

type vGroup struct {
	members map[string]ConsumerGroupMemberMetadata
	ids     []string
	topics  map[string][]int32
	tnames  []string
}

// vGroupShape draws a group: 1..3 members, 1..2 topics, 0..3 partitions per topic, every
// subscription matrix (a member may subscribe to nothing).
func vGroupShape(maxMembers, maxParts int) *vGroup {
	g := &vGroup{members: map[string]ConsumerGroupMemberMetadata{}, topics: map[string][]int32{}}
	nm := 1 + vChoose("members", maxMembers)
	nt := 1 + vChoose("topics", 2)
	names := []string{"a", "b"}
	for t := 0; t < nt; t++ {
		np := vChoose("partitions", maxParts+1)
		var ps []int32
		for p := 0; p < np; p++ {
			ps = append(ps, int32(p))
		}
		g.topics[names[t]] = ps
		g.tnames = append(g.tnames, names[t])
	}
	mids := []string{"m0", "m1", "m2"}
	for m := 0; m < nm; m++ {
		var subs []string
		for t := 0; t < nt; t++ {
			if vChoose("subscribes", 2) == 1 {
				subs = append(subs, names[t])
			}
		}
		g.members[mids[m]] = ConsumerGroupMemberMetadata{Topics: subs}
		g.ids = append(g.ids, mids[m])
	}
	// the topic map handed to a strategy holds the topics somebody subscribes to
	for _, t := range g.tnames {
		if len(g.subscribers(t)) == 0 {
			delete(g.topics, t)
		}
	}
	return g
}

func (g *vGroup) subscribers(topic string) []string {
	var out []string
	for _, id := range g.ids {
		if strsContains(g.members[id].Topics, topic) {
			out = append(out, id)
		}
	}
	return out
}

// vAssertValid is the C08 predicate.
func (g *vGroup) vAssertValid(plan BalanceStrategyPlan) {
	for member, byTopic := range plan {
		_, known := g.members[member]
		vAssert(known, "no-unknown-member")
		for topic, parts := range byTopic {
			vAssert(strsContains(g.members[member].Topics, topic), "owner-subscribes-to-topic")
			for _, p := range parts {
				found := false
				for _, q := range g.topics[topic] {
					if q == p {
						found = true
					}
				}
				vAssert(found, "no-nonexistent-partition")
			}
		}
	}
	for topic, parts := range g.topics {
		for _, p := range parts {
			owners := 0
			for _, byTopic := range plan {
				for _, q := range byTopic[topic] {
					if q == p {
						owners++
					}
				}
			}
			vAssert(owners >= 1, "every-partition-assigned")
			vAssert(owners <= 1, "no-partition-assigned-twice")
		}
	}
}

func (g *vGroup) count(plan BalanceStrategyPlan, member string) int {
	n := 0
	for _, ps := range plan[member] {
		n += len(ps)
	}
	return n
}

// C08/C13 range: the member order per topic depends only on a hash; here the hash is a FREE
// 32-bit value per (topic, member) so every ordering (and ties) is covered by the solver.
func vRangeHashOverride() {
	memo := map[string]uint32{}
	vOverride("balanceStrategyHashValue", func(vv ...string) uint32 {
		k := ""
		for _, s := range vv {
			k += s + "|"
		}
		if h, ok := memo[k]; ok {
			return h
		}
		h := vUint32("hash")
		memo[k] = h
		return h
	})
}

func verifHarness_C08_range() {
	g := vGroupShape(3, 3)
	vRangeHashOverride()
	plan, err := BalanceStrategyRange.Plan(g.members, g.topics)
	vAssert(err == nil, "no-error")
	g.vAssertValid(plan)
	vReach()
}

func verifHarness_C08_roundRobin() {
	g := vGroupShape(3, 3)
	vAssume(len(g.topics) > 0)
	plan, err := BalanceStrategyRoundRobin.Plan(g.members, g.topics)
	vAssert(err == nil, "no-error")
	g.vAssertValid(plan)
	vReach()
}

func verifHarness_C08_stickyFresh() {
	g := vGroupShape(3, 3)
	plan, err := (&stickyBalanceStrategy{}).Plan(g.members, g.topics)
	vAssert(err == nil, "no-error")
	g.vAssertValid(plan)
	vReach()
}

// sticky with arbitrary (stale, conflicting, partly deleted) previous state in the user data
func verifHarness_C08_stickyPrior() {
	g := &vGroup{members: map[string]ConsumerGroupMemberMetadata{}, topics: map[string][]int32{"a": {0, 1}, "b": {0}},
		tnames: []string{"a", "b"}, ids: []string{"m0", "m1"}}
	if vTier() > 0 {
		g.ids = append(g.ids, "m2")
	}
	for _, id := range g.ids {
		var subs []string
		for _, t := range g.tnames {
			if vChoose("subscribes", 2) == 1 {
				subs = append(subs, t)
			}
		}
		g.members[id] = ConsumerGroupMemberMetadata{Topics: subs}
	}
	for _, t := range g.tnames {
		if len(g.subscribers(t)) == 0 {
			delete(g.topics, t)
		}
	}
	menu := []topicPartitionAssignment{{"a", 0}, {"a", 1}, {"b", 0}, {"a", 7}}
	for i, id := range g.ids {
		maxSlots := 3
		if i == 2 {
			maxSlots = 2 // thorough tier: the third member claims at most one prior partition (keeps the space ~3M paths)
		}
		slots := vChoose("priorSlots", maxSlots)
		if slots == 0 {
			continue
		}
		topics := map[string][]int32{}
		for s := 0; s < slots; s++ {
			tp := menu[vChoose("priorClaim", len(menu))]
			topics[tp.Topic] = append(topics[tp.Topic], tp.Partition)
		}
		var ud []byte
		var err error
		switch vChoose("userData", 3) {
		case 0:
			ud, err = encode(&StickyAssignorUserDataV0{Topics: topics}, nil)
		case 1:
			ud, err = encode(&StickyAssignorUserDataV1{Topics: topics, Generation: 1}, nil)
		case 2:
			ud, err = encode(&StickyAssignorUserDataV1{Topics: topics, Generation: 2}, nil)
		}
		vAssume(err == nil)
		m := g.members[id]
		m.UserData = ud
		g.members[id] = m
	}
	plan, err := (&stickyBalanceStrategy{}).Plan(g.members, g.topics)
	vAssert(err == nil, "no-error")
	g.vAssertValid(plan)
	vReach()
}

// sticky with every pattern of prior claims over three partitions by three members: each
// partition is claimed by any subset of the members (conflicts included), each member's user
// data carries generation 1 or 2 (so conflicting claims have equal or different generations),
// every subscription matrix (claims of topics a member no longer subscribes to included).
func verifHarness_C08_stickyConflicts() {
	g := &vGroup{members: map[string]ConsumerGroupMemberMetadata{}, topics: map[string][]int32{"a": {0, 1}, "b": {0}},
		tnames: []string{"a", "b"}, ids: []string{"m0", "m1", "m2"}}
	subsClass := ""
	for _, id := range g.ids {
		var subs []string
		for _, t := range g.tnames {
			if vChoose("subscribes", 2) == 1 {
				subs = append(subs, t)
				subsClass += t
			}
		}
		subsClass += "/"
		g.members[id] = ConsumerGroupMemberMetadata{Topics: subs}
	}
	for _, t := range g.tnames {
		if len(g.subscribers(t)) == 0 {
			delete(g.topics, t)
		}
	}
	parts := []topicPartitionAssignment{{"a", 0}, {"a", 1}, {"b", 0}}
	claims := map[string]map[string][]int32{"m0": {}, "m1": {}, "m2": {}}
	claimClass := ""
	for _, tp := range parts {
		who := vChoose("claimedBy", 8) // bit i: member i claims it
		claimClass += vItoa(int64(who))
		for i, id := range g.ids {
			if who&(1<<uint(i)) != 0 {
				claims[id][tp.Topic] = append(claims[id][tp.Topic], tp.Partition)
			}
		}
	}
	genClass := ""
	for _, id := range g.ids {
		if len(claims[id]) == 0 {
			genClass += "-"
			continue
		}
		gen := int32(1 + vChoose("generation", 2))
		genClass += vItoa(int64(gen))
		ud, err := encode(&StickyAssignorUserDataV1{Topics: claims[id], Generation: gen}, nil)
		vAssume(err == nil)
		m := g.members[id]
		m.UserData = ud
		g.members[id] = m
	}
	vClass(vSprintf("subs=%s,claims=%s,gens=%s", subsClass, claimClass, genClass))
	plan, err := (&stickyBalanceStrategy{}).Plan(g.members, g.topics)
	vAssert(err == nil, "no-error")
	g.vAssertValid(plan)
	vReach()
}
