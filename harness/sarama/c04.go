//go:build verif

package sarama

// C04 P-sys: a reported success identifies exactly where and what was written.
func verifHarness_C04_sysFaults() {
	r := vRunProducer(vProdScenario(0))
	r.assertC04()
	vReach()
}

func verifHarness_C04_sysSchedules() {
	r := vRunProducer(vProdScenario(1))
	r.assertC04()
	vReach()
}
