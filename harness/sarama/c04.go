//go:build verif

package sarama

import "time"

// C04 P-sys: a reported success identifies exactly where and what was written.
func verifHarness_C04_sysFaults() {
	r := vRunProducer(vProdScenario(0))
	r.assertC04()
	vReach()
}

func verifHarness_C04_sysSchedules() {
	r := vRunProducer(vProdScenario(1))
	r.assertC04()
	vReach()
}

// C04 P-unit (W2): what the broker receives decodes to exactly what was submitted, for every
// version generation and every nil / empty / non-empty key, value and header combination.
func verifHarness_C04_wireContent() {
	conf := NewConfig()
	switch vChoose("version", 4) {
	case 0:
		conf.Version = V0_8_2_0
	case 1:
		conf.Version = V0_10_0_0
	case 2:
		conf.Version = V0_11_0_0
	case 3:
		conf.Version = V2_1_0_0
		conf.Producer.Compression = CompressionZSTD
	}
	if vChoose("compressed", 2) == 1 && conf.Producer.Compression == CompressionNone {
		conf.Producer.Compression = CompressionGZIP
	}
	p := &asyncProducer{conf: conf, txnmgr: &transactionManager{producerID: noProducerID, producerEpoch: noProducerEpoch}}
	ps := newProduceSet(p)
	n := 1 + vChoose("messages", 2)
	type sub struct {
		key, val   []byte
		keyNil     bool
		valNil     bool
		hdr        bool
		ts         time.Time
	}
	var subs []sub
	mkPayload := func(name string) (Encoder, []byte, bool) {
		switch vChoose(name, 3) {
		case 0:
			return nil, nil, true
		case 1:
			return ByteEncoder([]byte{}), []byte{}, false
		}
		b := vBytes(name, 1)
		return ByteEncoder(b), b, false
	}
	for i := 0; i < n; i++ {
		k, kb, kn := mkPayload("key")
		v, vb, vn := mkPayload("value")
		m := &ProducerMessage{Topic: "t", Partition: 0, Key: k, Value: v}
		s := sub{key: kb, val: vb, keyNil: kn, valNil: vn}
		if conf.Version.IsAtLeast(V0_11_0_0) && i == 0 && vChoose("headers", 2) == 1 {
			m.Headers = []RecordHeader{{Key: []byte("h"), Value: vBytes("hval", 1)}}
			s.hdr = true
		}
		// supplied timestamps in any order (a later message may carry an earlier time)
		if conf.Version.IsAtLeast(V0_10_0_0) && vChoose("timestamp", 2) == 1 {
			s.ts = time.Unix(int64(1000+3*vChoose("when", 3)), 0)
			m.Timestamp = s.ts
		}
		vAssert(ps.add(m) == nil, "add")
		subs = append(subs, s)
	}
	req := ps.buildRequest()
	raw, err := encode(req, nil)
	vAssert(err == nil, "request-encodes")
	var back ProduceRequest
	err = versionedDecode(raw, &back, req.Version)
	vAssert(err == nil, "request-decodes")
	if err != nil {
		return
	}
	recs := back.records["t"][0]
	var keys, vals [][]byte
	var nHdr []int
	var stamps []time.Time
	if recs.RecordBatch != nil {
		for i, r := range recs.RecordBatch.Records {
			stamps = append(stamps, recs.RecordBatch.FirstTimestamp.Add(r.TimestampDelta))
			keys, vals = append(keys, r.Key), append(vals, r.Value)
			nHdr = append(nHdr, len(r.Headers))
			vAssert(r.OffsetDelta == int64(i), "offset-deltas-are-indices")
		}
		vAssert(int(recs.RecordBatch.LastOffsetDelta) == n-1, "last-offset-delta")
	} else {
		vAssert(recs.MsgSet != nil, "legacy-message-set-present")
		for _, mb := range recs.MsgSet.Messages {
			for _, inner := range mb.Messages() {
				keys, vals = append(keys, inner.Msg.Key), append(vals, inner.Msg.Value)
				nHdr = append(nHdr, 0)
				stamps = append(stamps, inner.Msg.Timestamp)
			}
		}
	}
	vAssert(len(keys) == n, "record-count-equals-message-count")
	for i := 0; i < n && i < len(keys); i++ {
		vAssert((keys[i] == nil) == subs[i].keyNil && (vals[i] == nil) == subs[i].valNil, "null-vs-empty-preserved")
		vAssert(string(keys[i]) == string(subs[i].key) && string(vals[i]) == string(subs[i].val), "payload-bytes-preserved")
		if subs[i].hdr {
			vAssert(nHdr[i] == 1, "headers-preserved")
		}
		if !subs[i].ts.IsZero() {
			vAssert(stamps[i].Equal(subs[i].ts), "supplied-timestamp-is-the-one-written")
			vCover("timestamp-checked", true)
		}
	}
	vReach()
}
