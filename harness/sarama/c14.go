//go:build verif

package sarama

import (
	"errors"
	"net"
	"time"

	"github.com/rcrowley/go-metrics"
)

var errVRead = errors.New("verif: read failed")

type vFrame struct {
	data []byte
	err  error
}

// vConn is a net.Conn whose peer is a scripted server: every request frame written is parsed
// (correlation id, caller tag) and answered according to a per-request behaviour choice.
type vConn struct {
	queue     chan vFrame
	cur       []byte
	onWire    int
	maxOnWire int
	written   int
	faults    int
	closed    bool
	failWrite bool
	faultAt   int    // position (1-based, in write order) of the request that was answered with a fault
	order     []byte // caller tags in the order their requests were written
}

const (
	vsOK = iota
	vsWrongID
	vsReadError
	vsTruncated
	vsBadLength
	vsWrongIDHeaderOnly // a frame header with a foreign correlation id and nothing after it
	vsKinds
)

func (c *vConn) Write(p []byte) (int, error) {
	if c.failWrite {
		return 0, errVRead
	}
	c.written++
	c.onWire++
	if c.onWire > c.maxOnWire {
		c.maxOnWire = c.onWire
	}
	corr := int32(uint32(p[8])<<24 | uint32(p[9])<<16 | uint32(p[10])<<8 | uint32(p[11]))
	clientLen := int(p[12])<<8 | int(p[13])
	body := p[14+clientLen:]
	tag := body[2+3] // low byte of the generation id the caller put in its heartbeat request
	kind := vsOK
	if c.faults > 0 {
		kind = vChoose("server", vsKinds)
		if kind != vsOK {
			c.faults--
			c.faultAt = c.written
		}
	}
	c.order = append(c.order, tag)
	resp := []byte{0, 0, 0, 6, byte(corr >> 24), byte(corr >> 16), byte(corr >> 8), byte(corr), 0, tag}
	switch kind {
	case vsWrongID:
		other := vInt32("wrongCorrelationID")
		vAssume(other != corr)
		resp[4], resp[5], resp[6], resp[7] = byte(other>>24), byte(other>>16), byte(other>>8), byte(other)
		c.queue <- vFrame{data: resp}
	case vsWrongIDHeaderOnly:
		other := vInt32("wrongCorrelationID")
		vAssume(other != corr)
		resp[4], resp[5], resp[6], resp[7] = byte(other>>24), byte(other>>16), byte(other>>8), byte(other)
		c.queue <- vFrame{data: resp[:8]}
	case vsReadError:
		c.queue <- vFrame{err: errVRead}
	case vsTruncated:
		c.queue <- vFrame{data: resp[:9]}
		c.queue <- vFrame{err: errVRead}
	case vsBadLength:
		l := vInt32("badLength")
		vAssume(l <= 4 || l > MaxResponseSize)
		resp[0], resp[1], resp[2], resp[3] = byte(l>>24), byte(l>>16), byte(l>>8), byte(l)
		c.queue <- vFrame{data: resp}
	default:
		c.queue <- vFrame{data: resp}
	}
	return len(p), nil
}

func (c *vConn) Read(p []byte) (int, error) {
	if len(c.cur) == 0 {
		f := <-c.queue
		if f.err != nil {
			return 0, f.err
		}
		c.cur = f.data
	}
	n := copy(p, c.cur)
	c.cur = c.cur[n:]
	if len(c.cur) == 0 {
		c.onWire-- // the response has been taken off the wire
	}
	return n, nil
}

func (c *vConn) Close() error                       { c.closed = true; return nil }
func (c *vConn) LocalAddr() net.Addr                { return nil }
func (c *vConn) RemoteAddr() net.Addr               { return nil }
func (c *vConn) SetDeadline(t time.Time) error      { return nil }
func (c *vConn) SetReadDeadline(t time.Time) error  { return nil }
func (c *vConn) SetWriteDeadline(t time.Time) error { return nil }

func vBrokerLiteral(conf *Config, conn net.Conn, respCap int) *Broker {
	return &Broker{id: 1, addr: "b:1", conf: conf, conn: conn, done: make(chan bool), responses: make(chan responsePromise, respCap),
		incomingByteRate: metrics.NilMeter{}, requestRate: metrics.NilMeter{}, requestSize: metrics.NilHistogram{},
		requestLatency: metrics.NilHistogram{}, outgoingByteRate: metrics.NilMeter{}, responseRate: metrics.NilMeter{},
		responseSize: metrics.NilHistogram{}, requestsInFlight: metrics.NilCounter{}}
}

type vCallResult struct {
	err error
	tag int16
}

// C14 P-sys: C concurrent callers on one Broker connection; the server answers each request
// in order, or with a wrong correlation id, a read error, a truncated frame or a bad length.
func verifHarness_C14_callers() {
	callers := 2 + vChoose("callers", 2)
	maxOpen := 1 + vChoose("maxOpenRequests", 3)
	if vTier() == 0 {
		vConfig("delay", 1)
	} else {
		vConfig("delay", 2)
	}
	conf := NewConfig()
	conf.Net.MaxOpenRequests = maxOpen
	conn := &vConn{queue: make(chan vFrame, 16), faults: 1}
	b := vBrokerLiteral(conf, conn, maxOpen-1)
	vClass(vSprintf("callers=%d,maxOpen=%d", callers, maxOpen))
	go b.responseReceiver()
	results := make([]vCallResult, callers)
	doneCh := make(chan int, callers)
	for i := 0; i < callers; i++ {
		i := i
		go func() {
			req := &HeartbeatRequest{GenerationId: int32(10 + i)}
			res := new(HeartbeatResponse)
			err := b.sendAndReceive(req, res)
			results[i] = vCallResult{err: err, tag: int16(res.Err)}
			doneCh <- i
		}()
	}
	for i := 0; i < callers; i++ {
		<-doneCh // every call returns: nobody hangs
	}
	failed := 0
	for i := 0; i < callers; i++ {
		if results[i].err == nil {
			vAssert(results[i].tag == int16(10+i), "each-call-gets-its-own-response")
		} else {
			failed++
		}
	}
	if conn.faults == 0 {
		vAssert(failed >= 1, "a-connection-fault-is-reported-to-some-caller")
	} else {
		vAssert(failed == 0, "no-fault-no-error")
	}
	// a fault is a connection fault: the request it hit and every request written after it fail
	if conn.faultAt > 0 {
		for pos, tag := range conn.order {
			if pos+1 >= conn.faultAt {
				vAssert(results[int(tag)-10].err != nil, "every-call-from-the-fault-on-returns-an-error")
			}
		}
	}
	vAssert(conn.maxOnWire <= maxOpen, "at-most-MaxOpenRequests-on-the-wire")
	vAssert(b.Close() == nil && conn.closed, "close-completes")
	vReach()
}

// P-step on send: correlation ids strictly increase, a failed write consumes no id and
// leaves no promise; everything happens under the broker lock.
func verifHarness_C14_send() {
	conf := NewConfig()
	conn := &vConn{queue: make(chan vFrame, 16)}
	b := vBrokerLiteral(conf, conn, 4)
	b.correlationID = vInt32("startID")
	start := b.correlationID
	p1, err := b.send(&HeartbeatRequest{}, true, 0)
	vAssert(err == nil && p1 != nil && p1.correlationID == start, "first-promise-carries-current-id")
	vAssert(!vHeld(&b.lock), "lock-released")
	conn.failWrite = true
	p2, err := b.send(&HeartbeatRequest{}, true, 0)
	vAssert(err != nil && p2 == nil, "write-failure-reported")
	vAssert(b.correlationID == start+1 && len(b.responses) == 1, "failed-write-consumes-no-id-and-no-promise")
	conn.failWrite = false
	p3, err := b.send(&HeartbeatRequest{}, true, 0)
	vAssert(err == nil && p3.correlationID == start+1, "ids-consecutive")
	p4, err := b.send(&HeartbeatRequest{}, false, 0)
	vAssert(err == nil && p4 == nil && b.correlationID == start+3, "no-promise-when-no-response-expected")
	vAssert(conn.written == 3, "three-frames-written")
	vReach()
}

// P-step on the receive side of one promise with arbitrary header bytes.
func verifHarness_C14_receiverHeader() {
	conf := NewConfig()
	hv := int16(vChoose("headerVersion", 2))
	hdr := vBytes("header", 8+int(hv))
	conn := &vConn{queue: make(chan vFrame, 4)}
	conn.queue <- vFrame{data: hdr}
	bodyLen := []int{0, 1, 10}[vChoose("bodyAvailable", 3)]
	conn.queue <- vFrame{data: make([]byte, bodyLen)}
	conn.queue <- vFrame{err: errVRead}
	b := vBrokerLiteral(conf, conn, 2)
	{
		l := int32(uint32(hdr[0])<<24 | uint32(hdr[1])<<16 | uint32(hdr[2])<<8 | uint32(hdr[3]))
		vAssume(l <= 4 || l > MaxResponseSize || l <= 14) // acceptable lengths are kept small here
	}
	want := vInt32("expectedID")
	pr := responsePromise{correlationID: want, headerVersion: hv, packets: make(chan []byte, 1), errors: make(chan error, 1)}
	pr2 := responsePromise{correlationID: want + 1, headerVersion: hv, packets: make(chan []byte, 1), errors: make(chan error, 1)}
	b.responses <- pr
	b.responses <- pr2
	close(b.responses)
	b.responseReceiver()
	vAssert(len(pr.packets)+len(pr.errors) == 1, "exactly-one-outcome-per-promise")
	vAssert(len(pr2.packets)+len(pr2.errors) == 1, "exactly-one-outcome-for-the-next-promise")
	length := int32(uint32(hdr[0])<<24 | uint32(hdr[1])<<16 | uint32(hdr[2])<<8 | uint32(hdr[3]))
	id := int32(uint32(hdr[4])<<24 | uint32(hdr[5])<<16 | uint32(hdr[6])<<8 | uint32(hdr[7]))
	delivered := len(pr.packets) == 1
	if delivered {
		vAssert(id == want, "delivered-only-with-matching-correlation-id")
		vAssert(length > 4 && length <= MaxResponseSize, "delivered-only-with-sane-length")
		buf := <-pr.packets
		vAssert(len(buf) == int(length)-int(8+hv)+4, "body-size-follows-the-length-field")
	} else {
		vAssert(len(pr2.errors) == 1, "after-a-fault-every-later-promise-gets-an-error")
	}
	vCover("delivered", delivered)
	vCover("mismatch-rejected", !delivered)
	vReach()
}

// After a frame with a foreign correlation id the connection is dead even if the stream that
// follows is perfectly aligned and valid for the next caller.
func verifHarness_C14_mismatchIsSticky() {
	conf := NewConfig()
	want := vInt32("expectedID")
	other := vInt32("foreignID")
	vAssume(other != want)
	hdr1 := []byte{0, 0, 0, 6, byte(other >> 24), byte(other >> 16), byte(other >> 8), byte(other)}
	n := want + 1
	frame2 := []byte{0, 0, 0, 6, byte(n >> 24), byte(n >> 16), byte(n >> 8), byte(n), 0, 0}
	conn := &vConn{queue: make(chan vFrame, 4)}
	conn.queue <- vFrame{data: hdr1}
	conn.queue <- vFrame{data: frame2}
	conn.queue <- vFrame{err: errVRead}
	b := vBrokerLiteral(conf, conn, 2)
	pr := responsePromise{correlationID: want, packets: make(chan []byte, 1), errors: make(chan error, 1)}
	pr2 := responsePromise{correlationID: n, packets: make(chan []byte, 1), errors: make(chan error, 1)}
	b.responses <- pr
	b.responses <- pr2
	close(b.responses)
	b.responseReceiver()
	vAssert(len(pr.errors) == 1 && len(pr.packets) == 0, "foreign-correlation-id-not-delivered")
	vAssert(len(pr2.errors) == 1 && len(pr2.packets) == 0, "connection-stays-dead-after-a-mismatch")
	vReach()
}
