//go:build verif

package sarama

import "hash"

// vHash32 is a hash.Hash32 whose sum is a free 32-bit value (all hashes at once).
type vHash32 struct {
	sum    uint32
	writes int
}

func (h *vHash32) Write(p []byte) (int, error) { h.writes++; return len(p), nil }
func (h *vHash32) Sum(b []byte) []byte         { return b }
func (h *vHash32) Reset()                      {}
func (h *vHash32) Size() int                   { return 4 }
func (h *vHash32) BlockSize() int              { return 1 }
func (h *vHash32) Sum32() uint32               { return h.sum }

// C17: hash partitioner result is in range for every hash value and partition count, and
// equals the documented formula (reference variant = Java's toPositive(hash) % n).
func verifHarness_C17_hashRange() {
	h := &vHash32{sum: vUint32("h")}
	n := vInt32("n")
	vAssume(n > 0)
	ref := vChoose("referenceAbs", 2) == 1
	var ctor PartitionerConstructor
	if ref {
		ctor = NewCustomPartitioner(WithAbsFirst(), WithCustomHashFunction(func() hash.Hash32 { return h }))
	} else {
		ctor = NewCustomHashPartitioner(func() hash.Hash32 { return h })
	}
	p := ctor("t")
	got, err := p.Partition(&ProducerMessage{Key: ByteEncoder{1, 2}}, n)
	vAssert(err == nil, "no-error")
	vAssert(got >= 0, "nonneg")
	vAssert(got < n, "below-n")
	if ref {
		vAssert(got == int32(uint32(h.sum)&0x7fffffff)%n, "java-compatible")
	} else {
		r := int32(h.sum) % n
		if r < 0 {
			r = -r
		}
		vAssert(got == r, "abs-of-remainder")
	}
	// determinism: the same key (same hash) again
	got2, _ := p.Partition(&ProducerMessage{Key: ByteEncoder{1, 2}}, n)
	vAssert(got2 == got, "deterministic")
	vAssert(h.writes == 2, "key-bytes-hashed")
	vCover("negative-hash", int32(h.sum) < 0)
	vCover("min-int-hash", h.sum == 0x80000000)
	vReach()
}

// The real FNV-1a hasher on short symbolic keys: equal keys give equal partitions, in range.
func verifHarness_C17_fnvKeys() {
	klen := vChoose("keylen", 4)
	key := vBytes("key", klen)
	n := vInt32("n")
	vAssume(n > 0 && n <= 1024)
	for _, p := range []Partitioner{NewHashPartitioner("t"), NewReferenceHashPartitioner("t")} {
		a, err := p.Partition(&ProducerMessage{Key: ByteEncoder(key)}, n)
		vAssert(err == nil && a >= 0 && a < n, "in-range")
		key2 := make([]byte, klen)
		copy(key2, key)
		b, _ := p.Partition(&ProducerMessage{Key: ByteEncoder(key2)}, n)
		vAssert(a == b, "equal-keys-equal-partition")
	}
	vReach()
}

func verifHarness_C17_roundRobin() {
	n := vInt32("n")
	vAssume(n > 0)
	p := NewRoundRobinPartitioner("t").(*roundRobinPartitioner)
	p.partition = vInt32("cursor")
	vAssume(p.partition >= 0 && p.partition <= n) // invariant of the cursor for a fixed n
	first, err := p.Partition(&ProducerMessage{}, n)
	vAssert(err == nil && first >= 0 && first < n, "in-range")
	prev := first
	for i := 0; i < 4; i++ {
		cur, err := p.Partition(&ProducerMessage{}, n)
		vAssert(err == nil && cur >= 0 && cur < n, "in-range")
		want := prev + 1
		if want == n {
			want = 0
		}
		vAssert(cur == want, "consecutive-mod-n")
		prev = cur
	}
	vAssert(!p.RequiresConsistency(), "no-consistency")
	// the partition count may change between calls (partitions lose or regain their leader)
	n2 := vInt32("n2")
	vAssume(n2 > 0)
	for i := 0; i < 2; i++ {
		cur, err := p.Partition(&ProducerMessage{}, n2)
		vAssert(err == nil && cur >= 0 && cur < n2, "in-range-after-the-partition-count-changed")
	}
	vCover("count-shrinks-below-cursor", n2 < prev)
	vReach()
}

func verifHarness_C17_randomManual() {
	n := vInt32("n")
	vAssume(n > 0)
	r := NewRandomPartitioner("t")
	got, err := r.Partition(&ProducerMessage{}, n)
	vAssert(err == nil && got >= 0 && got < n, "random-in-range")
	m := NewManualPartitioner("t")
	want := vInt32("manual")
	got, err = m.Partition(&ProducerMessage{Partition: want}, n)
	vAssert(err == nil && got == want, "manual-identity")
	vAssert(m.RequiresConsistency(), "manual-consistent")
	// keyless message on a hash partitioner falls back to the random partitioner
	h := NewHashPartitioner("t")
	got, err = h.Partition(&ProducerMessage{}, n)
	vAssert(err == nil && got >= 0 && got < n, "keyless-in-range")
	dp := h.(DynamicConsistencyPartitioner)
	vAssert(!dp.MessageRequiresConsistency(&ProducerMessage{}), "keyless-not-consistent")
	vAssert(dp.MessageRequiresConsistency(&ProducerMessage{Key: StringEncoder("k")}), "keyed-consistent")
	vReach()
}

// vFixedPartitioner returns a fixed answer and counts calls.
type vFixedPartitioner struct {
	ret   int32
	calls int
}

func (f *vFixedPartitioner) Partition(m *ProducerMessage, n int32) (int32, error) {
	f.calls++
	return f.ret, nil
}
func (f *vFixedPartitioner) RequiresConsistency() bool { return false }

// The custom fallback option must install the partitioner it was given.
func verifHarness_C17_fallbackOption() {
	vConfig("hang", 1) // unbounded recursion here is a violation (never returns / stack overflow)
	n := vInt32("n")
	vAssume(n > 0)
	fb := &hashPartitioner{random: &vFixedPartitioner{ret: 0}, hasher: &vHash32{}}
	inner := fb.random.(*vFixedPartitioner)
	p := NewCustomPartitioner(WithCustomFallbackPartitioner(fb))("t")
	got, err := p.Partition(&ProducerMessage{}, n) // keyless
	vAssert(err == nil && got == 0, "fallback-result")
	vAssert(inner.calls == 1, "fallback-used-once")
	vReach()
}

// vPartsClient answers Partitions / WritablePartitions from fixed lists.
type vPartsClient struct {
	vFakeClient
	all, writable []int32
	askedAll      int
	askedWritable int
}

func (c *vPartsClient) Partitions(topic string) ([]int32, error) {
	c.askedAll++
	return c.all, nil
}
func (c *vPartsClient) WritablePartitions(topic string) ([]int32, error) {
	c.askedWritable++
	return c.writable, nil
}

type vChoicePartitioner struct {
	choice      int32
	err         error
	consistent  bool
	offered     int32
}

func (p *vChoicePartitioner) Partition(m *ProducerMessage, n int32) (int32, error) {
	p.offered = n
	return p.choice, p.err
}
func (p *vChoicePartitioner) RequiresConsistency() bool { return p.consistent }

// a partitioner that decides per message (DynamicConsistencyPartitioner), like the hash family
type vDynPartitioner struct {
	vChoicePartitioner
	perMessage bool
	asked      int
}

func (p *vDynPartitioner) MessageRequiresConsistency(m *ProducerMessage) bool {
	p.asked++
	return p.perMessage
}

// C17: the producer honours the partitioner's choice: consistency-requiring messages are
// offered all partitions, the others only writable ones; the message goes to partitions[choice];
// an out-of-range choice, a partitioner error or an empty list fail the message.
func verifHarness_C17_partitionMessage() {
	conf := NewConfig()
	cl := vNewCluster(conf, 1, 1, 0)
	lists := [][]int32{{}, {4}, {4, 7}, {4, 7, 9}}
	all := lists[vChoose("allPartitions", 4)]
	var writable []int32
	for _, p := range all {
		if vChoose("hasLeader", 2) == 1 {
			writable = append(writable, p)
		}
	}
	client := &vPartsClient{vFakeClient: vFakeClient{conf: conf, cl: cl}, all: all, writable: writable}
	part := &vChoicePartitioner{choice: vInt32("choice"), consistent: vChoose("requiresConsistency", 2) == 1}
	if vChoose("partitionerFails", 2) == 1 {
		part.err = errVConn
	}
	var partitioner Partitioner = part
	wantConsistent := part.consistent
	if vChoose("decidesPerMessage", 2) == 1 {
		// the per-message answer alone decides, whatever the static answer is
		dyn := &vDynPartitioner{perMessage: vChoose("messageRequiresConsistency", 2) == 1}
		dyn.vChoicePartitioner = *part
		part = &dyn.vChoicePartitioner
		partitioner = dyn
		wantConsistent = dyn.perMessage
	}
	tp := &topicProducer{parent: &asyncProducer{client: client, conf: conf}, topic: "t", breaker: vBreaker(), partitioner: partitioner}
	msg := &ProducerMessage{Topic: "t", Key: StringEncoder("k"), Partition: -5}
	err := tp.partitionMessage(msg)
	offeredList := writable
	if wantConsistent {
		offeredList = all
		vAssert(client.askedAll == 1 && client.askedWritable == 0, "consistent-messages-are-offered-all-partitions")
	} else {
		vAssert(client.askedAll == 0 && client.askedWritable == 1, "other-messages-are-offered-writable-partitions")
	}
	n := int32(len(offeredList))
	switch {
	case n == 0:
		vAssert(err == ErrLeaderNotAvailable, "nothing-available-is-an-error")
	case part.err != nil:
		vAssert(err == part.err, "partitioner-error-returned")
	case part.choice < 0 || part.choice >= n:
		vAssert(err == ErrInvalidPartition, "out-of-range-choice-rejected")
	default:
		vAssert(err == nil && part.offered == n, "count-offered-matches-the-list")
		vAssert(msg.Partition == offeredList[part.choice], "message-goes-to-the-chosen-partition-id")
	}
	if err != nil {
		vAssert(msg.Partition == -5, "failed-message-not-assigned-anywhere")
	}
	vCover("out-of-range", n > 0 && part.err == nil && part.choice >= n)
	vReach()
}

// C17: the built-in hash partitioners ask for consistency per message: keyed messages are
// offered every partition (so the key→partition map is stable), keyless ones only partitions
// that currently have a leader.
func verifHarness_C17_hashFamilyConsistency() {
	conf := NewConfig()
	cl := vNewCluster(conf, 1, 1, 0)
	all := []int32{4, 7, 9}
	var writable []int32
	for _, p := range all {
		if vChoose("hasLeader", 2) == 1 {
			writable = append(writable, p)
		}
	}
	client := &vPartsClient{vFakeClient: vFakeClient{conf: conf, cl: cl}, all: all, writable: writable}
	var part Partitioner
	switch vChoose("constructor", 3) {
	case 0:
		part = NewHashPartitioner("t")
	case 1:
		part = NewReferenceHashPartitioner("t")
	case 2:
		part = NewCustomPartitioner()("t")
	}
	tp := &topicProducer{parent: &asyncProducer{client: client, conf: conf}, topic: "t", breaker: vBreaker(), partitioner: part}
	msg := &ProducerMessage{Topic: "t", Partition: -5}
	keyed := vChoose("keyed", 2) == 1
	if keyed {
		msg.Key = ByteEncoder(vBytes("key", 1))
	}
	err := tp.partitionMessage(msg)
	if keyed {
		vAssert(client.askedAll == 1 && client.askedWritable == 0, "keyed-messages-are-offered-all-partitions")
		vAssert(err == nil && (msg.Partition == 4 || msg.Partition == 7 || msg.Partition == 9), "keyed-message-goes-to-a-partition-of-the-topic")
	} else {
		vAssert(client.askedAll == 0 && client.askedWritable == 1, "keyless-messages-are-offered-writable-partitions-only")
		if len(writable) == 0 {
			vAssert(err == ErrLeaderNotAvailable, "nothing-writable-is-an-error")
		} else {
			ok := false
			for _, p := range writable {
				ok = ok || msg.Partition == p
			}
			vAssert(err == nil && ok, "keyless-message-goes-to-a-writable-partition")
		}
	}
	vReach()
}
