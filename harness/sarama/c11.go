//go:build verif

package sarama

import "time"

// batch kinds of the symbolic transactional log
const (
	vkPlain = iota
	vkTxnData
	vkCommit
	vkAbort
	vkKinds
)

type vTxnBatch struct {
	kind  int
	pid   int64
	first int64
	last  int64
	id    byte
}

func vControlBatch(first int64, pid int64, abort bool) *RecordBatch {
	typ := byte(1)
	if abort {
		typ = 0
	}
	return &RecordBatch{Version: 2, FirstOffset: first, LastOffsetDelta: 0, Control: true, IsTransactional: true, ProducerID: pid,
		FirstTimestamp: time.Unix(1600000000, 0), MaxTimestamp: time.Unix(1600000000, 0),
		Records: []*Record{{OffsetDelta: 0, Key: []byte{0, 0, 0, typ}, Value: []byte{0, 0, 0, 0, 0, 0}}}}
}

// C11 P-unit: a symbolic transactional log of 1..3 (thorough 4) batches with arbitrary
// increasing offsets, two producer ids, every mix of plain / transactional data / commit
// marker / abort marker that a faithful broker can return, the aborted-transaction index in
// every order, any start offset: ReadCommitted delivers exactly committed + plain records,
// ReadUncommitted all data records, control records never; the offset moves past everything.
func verifHarness_C11_readCommitted() {
	conf := NewConfig()
	committedOnly := vChoose("isolation", 2) == 1
	if committedOnly {
		conf.Consumer.IsolationLevel = ReadCommitted
	}
	S := vInt64("S")
	vAssume(S >= 0 && S < 1<<40)
	child := vChild(conf, S)
	maxB := 3
	if vTier() > 0 {
		maxB = 4
	}
	nb := 1 + vChoose("batches", maxB)
	pids := []int64{100, 200}
	open := map[int64]int64{}    // pid -> first offset of its open transaction (-1: began before the response)
	openSet := map[int64]bool{}  // pid has an open transaction
	var batches []vTxnBatch
	block := &FetchResponseBlock{}
	prev := int64(-1)
	id := byte(1)
	// a transaction may have begun before the fetched range
	for _, pid := range pids {
		if vChoose("openBefore", 2) == 1 {
			openSet[pid] = true
			open[pid] = -1
		}
	}
	type txn struct {
		pid        int64
		first      int64
		aborted    bool
		firstBatch int
	}
	var txns []*txn
	cur := map[int64]*txn{}
	for _, pid := range pids {
		if openSet[pid] {
			t := &txn{pid: pid, first: -1, firstBatch: -1}
			cur[pid] = t
			txns = append(txns, t)
		}
	}
	for b := 0; b < nb; b++ {
		first := vInt64("first")
		vAssume(first > prev && first < 1<<41)
		kind := vChoose("kind", vkKinds)
		pid := pids[vChoose("pid", 2)]
		tb := vTxnBatch{kind: kind, pid: pid, first: first, last: first, id: id}
		var rb *RecordBatch
		switch kind {
		case vkPlain:
			rb = &RecordBatch{Version: 2, FirstOffset: first, ProducerID: -1, FirstTimestamp: time.Unix(1600000000, 0),
				Records: []*Record{{OffsetDelta: 0, Key: []byte{id}, Value: []byte{id}}}}
		case vkTxnData:
			rb = &RecordBatch{Version: 2, FirstOffset: first, ProducerID: pid, IsTransactional: true, FirstTimestamp: time.Unix(1600000000, 0),
				Records: []*Record{{OffsetDelta: 0, Key: []byte{id}, Value: []byte{id}}}}
			if cur[pid] == nil {
				t := &txn{pid: pid, first: first, firstBatch: b}
				cur[pid] = t
				txns = append(txns, t)
			}
		case vkCommit, vkAbort:
			// well-formed markers close an open transaction of their producer
			vAssume(cur[pid] != nil)
			rb = vControlBatch(first, pid, kind == vkAbort)
			cur[pid].aborted = kind == vkAbort
			cur[pid] = nil
		}
		id++
		prev = first
		batches = append(batches, tb)
		rs := newDefaultRecords(rb)
		block.RecordsSet = append(block.RecordsSet, &rs)
	}
	// read-committed fetches end at the last stable offset: no transaction is left open
	for _, pid := range pids {
		vAssume(cur[pid] == nil)
	}
	vAssume(batches[0].last >= S)
	// the faithful aborted-transaction index, in an arbitrary order
	var index []*AbortedTransaction
	for _, t := range txns {
		if t.aborted {
			fo := t.first
			if fo < 0 {
				fo = vInt64("beganBefore")
				vAssume(fo >= 0 && fo < batches[0].first)
			}
			index = append(index, &AbortedTransaction{ProducerID: t.pid, FirstOffset: fo})
		}
	}
	if len(index) == 2 && vChoose("indexOrder", 2) == 1 {
		index[0], index[1] = index[1], index[0]
	}
	if len(index) == 3 {
		switch vChoose("indexOrder3", 3) {
		case 1:
			index[0], index[2] = index[2], index[0]
		case 2:
			index[0], index[1] = index[1], index[0]
		}
	}
	block.AbortedTransactions = index
	resp := &FetchResponse{Blocks: map[string]map[int32]*FetchResponseBlock{"t": {0: block}}}

	// ground truth by a reference walk
	want := []byte{}
	wantOff := []int64{}
	state := map[int64]*txn{}
	for _, t := range txns {
		if t.firstBatch == -1 {
			state[t.pid] = t
		}
	}
	for bi, tb := range batches {
		switch tb.kind {
		case vkPlain:
			if tb.first >= S {
				want = append(want, tb.id)
				wantOff = append(wantOff, tb.first)
			}
		case vkTxnData:
			if state[tb.pid] == nil {
				for _, t := range txns {
					if t.pid == tb.pid && t.firstBatch == bi {
						state[tb.pid] = t
					}
				}
			}
			if tb.first >= S && (!committedOnly || !state[tb.pid].aborted) {
				want = append(want, tb.id)
				wantOff = append(wantOff, tb.first)
			}
		case vkCommit, vkAbort:
			state[tb.pid] = nil
		}
	}
	msgs, err := child.parseResponse(resp)
	vAssert(err == nil, "no-error")
	vAssert(len(msgs) == len(want), "exactly-the-visible-records")
	for i := range msgs {
		if i < len(want) {
			vAssert(msgs[i].Key[0] == want[i] && msgs[i].Offset == wantOff[i], "right-record-in-order")
		}
	}
	vAssert(child.offset > batches[len(batches)-1].last || child.offset > S, "advances")
	for _, tb := range batches {
		if tb.last >= S {
			vAssert(child.offset > tb.last, "advances-past-control-and-filtered-batches")
		}
	}
	vCover("something-filtered", committedOnly && len(msgs) < len(batches))
	vReach()
}
