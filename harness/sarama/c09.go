//go:build verif

package sarama

import "time"

// ---------- helpers used by the generated generators (zz_verif_gen_fill.go) ----------

// vGenWide selects the thorough tier's second shape family: one collection (the 1st..4th of the
// value, by choice) holds up to 2 elements, values are one nesting level shallower (shape A is
// the quick tier's: 0..1 elements everywhere, depth 2).
var vGenWide bool
var vGenWideIndex, vGenCalls int

func vGenLen(label string, d int) int {
	if d <= 0 {
		return 0
	}
	if vGenWide {
		// thorough, shape B: the vGenWideIndex-th collection of the value holds 0..2 elements
		k := vGenCalls
		vGenCalls++
		if k == vGenWideIndex {
			return vChoose(label+".len", 3)
		}
	}
	return vChoose(label+".len", 2)
}

func vGenInt(label string) int { return int(vInt32(label)) }

func vGenString(label string) string {
	if vChoose(label+".strlen", 2) == 0 {
		return ""
	}
	return vString(label, 1)
}

func vGenBytes(label string) []byte {
	switch vChoose(label+".bytes", 3) {
	case 0:
		return nil
	case 1:
		return []byte{}
	}
	return vBytes(label, 1)
}

func vGenDuration(label string) time.Duration {
	return []time.Duration{0, time.Millisecond, 2147483647 * time.Millisecond}[vChoose(label+".dur", 3)]
}

func vGenTime(label string) time.Time {
	if vChoose(label+".time", 2) == 0 {
		return time.Time{}
	}
	return time.Unix(1600000000, 123000000)
}

// ---------- validity hooks: types whose representation invariant the encoders rely on ----------

func vGenHook_Broker(d int) *Broker {
	b := &Broker{id: vInt32("Broker.id")}
	host := vString("Broker.host", 1) // an empty host with port 0 is the wire form of "no broker"
	for i := 0; i < len(host); i++ {
		vAssume(host[i] != ':' && host[i] != '[' && host[i] != ']' && host[i] != '%')
	}
	// the port travels as int32 and is kept as decimal text in the address: a menu of ports
	port := []int64{0, 9092, 65535}[vChoose("Broker.port", 3)]
	b.addr = host + ":" + vItoa(port)
	if vChoose("Broker.rack.nil", 2) == 1 {
		r := vGenString("Broker.rack")
		b.rack = &r
	}
	return b
}

// Records nested in produce/fetch bodies are kept small here (codec none, one shape choice per
// field); the record formats themselves are explored in depth by verifHarness_C09_records.
func vGenHook_Record(d int) *Record {
	r := &Record{TimestampDelta: vGenDuration("Record.TimestampDelta"), OffsetDelta: vInt64("Record.OffsetDelta"),
		Value: vBytes("Record.Value", 1)}
	vAssume(r.OffsetDelta >= 0 && r.OffsetDelta < 64) // one-byte varints here; all widths in verifHarness_C09_varints
	if vChoose("Record.Key", 2) == 1 {
		r.Key = vBytes("Record.Key", 1)
	}
	if d > 0 && vChoose("Record.Headers", 2) == 1 {
		r.Headers = []*RecordHeader{{Key: vBytes("RecordHeader.Key", 1), Value: vBytes("RecordHeader.Value", 1)}}
	}
	return r
}

func vGenHook_RecordBatch(d int) *RecordBatch {
	flags := vChoose("RecordBatch.flags", 2) == 1
	b := &RecordBatch{Version: 2, FirstOffset: vInt64("RecordBatch.FirstOffset"), PartitionLeaderEpoch: vInt32("RecordBatch.PartitionLeaderEpoch"),
		Control: flags, LogAppendTime: flags, IsTransactional: flags, LastOffsetDelta: vInt32("RecordBatch.LastOffsetDelta"),
		FirstTimestamp: vGenTime("RecordBatch.FirstTimestamp"), MaxTimestamp: time.Unix(1600000001, 0),
		ProducerID: vInt64("RecordBatch.ProducerID"), ProducerEpoch: vInt16("RecordBatch.ProducerEpoch"), FirstSequence: vInt32("RecordBatch.FirstSequence")}
	n := vGenLen("RecordBatch.Records", d)
	for i := 0; i < n; i++ {
		b.Records = append(b.Records, vGenHook_Record(d-1))
	}
	return b
}

func vGenHook_Message(d int) *Message {
	m := &Message{Version: int8(vChoose("Message.Version", 2)), Key: vGenBytes("Message.Key"), Value: vBytes("Message.Value", 1)}
	if m.Version >= 1 {
		m.Timestamp = vGenTime("Message.Timestamp")
		m.LogAppendTime = vBool("Message.LogAppendTime")
	}
	return m
}

func vGenHook_MessageSet(d int) *MessageSet {
	// an empty legacy message set has no wire form of its own (zero bytes): at least one message
	ms := &MessageSet{}
	ms.Messages = append(ms.Messages, &MessageBlock{Offset: vInt64("MessageBlock.Offset"), Msg: vGenHook_Message(d - 1)})
	return ms
}

func vGenHook_Records(d int) *Records {
	if vChoose("Records.kind", 2) == 0 {
		r := newLegacyRecords(vGenHook_MessageSet(d))
		return &r
	}
	r := newDefaultRecords(vGenHook_RecordBatch(d))
	return &r
}

// the salted password of an upsertion is derived with PBKDF2/HMAC (crypto, outside every claim):
// requests are generated without upsertions
func vGenHook_AlterUserScramCredentialsRequest(d int) *AlterUserScramCredentialsRequest {
	r := &AlterUserScramCredentialsRequest{}
	n := vGenLen("AlterUserScramCredentialsRequest.Deletions", d)
	for i := 0; i < n; i++ {
		r.Deletions = append(r.Deletions, AlterUserScramCredentialsDelete{Name: vGenString("AlterUserScramCredentialsDelete.Name"),
			Mechanism: ScramMechanismType(vInt8("AlterUserScramCredentialsDelete.Mechanism"))})
	}
	return r
}

// C09: for every protocol body and every version gate: encode, decode, re-encode, re-decode.
func verifHarness_C09_roundTrip() {
	i := vChoose("body", len(vBodies))
	if only := vEnvInt("VERIF_BODY", -1); only >= 0 {
		vAssume(i == only)
	}
	b := vBodies[i]
	gen := vGenBodies[b.name]
	vAssume(gen != nil)
	depth := 2
	if vTier() > 0 && vChoose("shapeFamily", 2) == 1 {
		vGenWide = true
		vGenWideIndex = vChoose("wideCollection", 4)
		depth = 1
	}
	m := gen(depth)
	var ver int16
	if b.hasVersion {
		ver = int16(vChoose("version", int(b.maxVersion)+1))
		vSetVersion(m, ver)
	} else {
		ver = m.version() // bodies without a Version field have exactly one wire form
	}
	vLegalize(m)
	vNote(b.name)
	vClass(vSprintf("%s/v%d", b.name, ver))
	// the two passes of the encoder, by hand, so that their agreement can be asserted
	var prep prepEncoder
	if err := m.encode(&prep); err != nil {
		// the encoder itself rejects this value: not a legal value of this version
		vCover("some-encode-error", true)
		vReach()
		return
	}
	real := realEncoder{raw: make([]byte, prep.length)}
	err := m.encode(&real)
	vAssert(err == nil, "writing-pass-succeeds-after-sizing-pass")
	vAssert(real.off == prep.length, "sizing-pass-and-writing-pass-agree")
	vAssert(len(prep.stack) == 0 && len(real.stack) == 0, "push-pop-balanced")
	raw1 := real.raw
	m2 := b.mk(ver)
	err = versionedDecode(raw1, m2, ver)
	vAssert(err == nil, "decode-of-own-encoding-succeeds")
	if err != nil {
		return
	}
	vAssert(vWireEqual(m, m2, raw1), "every-field-on-the-wire-comes-back-equal")
	// the way the library itself decodes: into a blank value, told the version from outside
	// (responses: Broker.sendAndReceive; requests: decodeRequest/allocateBody)
	if b.hasVersion && ver < b.maxVersion { // maxVersion is one above the highest version gate in the source
		mb := b.mkBlank()
		if versionedDecode(raw1, mb, ver) == nil {
			vAssert(mb.version() == ver, "decoded-value-knows-its-version")
		}
	}
	raw2, err := encode(m2, nil)
	vAssert(err == nil, "re-encode-succeeds")
	if err != nil {
		return
	}
	vAssert(len(raw2) == len(raw1), "re-encoding-has-the-same-length")
	// compare two fresh decodes (encode caches bookkeeping in the value it encodes)
	m2b := b.mk(ver)
	vAssume(versionedDecode(raw1, m2b, ver) == nil)
	m3 := b.mk(ver)
	err = versionedDecode(raw2, m3, ver)
	vAssert(err == nil, "second-decode-succeeds")
	if err == nil {
		vAssert(vDeepEqual(m2b, m3), "second-round-trip-is-exact")
	}
	vReach()
}

// ConsumerMetadataResponse keeps deprecated host/port fields as decimal text inside an
// address: ports from a menu (free 32-bit ports turn the check into 64-bit multiplication
// chains no back end decides).
func vGenHook_ConsumerMetadataResponse(d int) *ConsumerMetadataResponse {
	r := &ConsumerMetadataResponse{Err: KError(vInt16("ConsumerMetadataResponse.Err"))}
	if vChoose("ConsumerMetadataResponse.Coordinator.nil", 2) == 1 {
		r.Coordinator = vGenHook_Broker(d - 1)
	} else {
		r.CoordinatorID = vInt32("ConsumerMetadataResponse.CoordinatorID")
		host := vString("ConsumerMetadataResponse.CoordinatorHost", 1)
		for i := 0; i < len(host); i++ {
			vAssume(host[i] != ':' && host[i] != '[' && host[i] != ']' && host[i] != '%')
		}
		r.CoordinatorHost = host
		r.CoordinatorPort = []int32{0, 9092, 65535}[vChoose("ConsumerMetadataResponse.CoordinatorPort", 3)]
	}
	return r
}


// vLegalize states the documented validity predicates that are not visible in the types.
func vLegalize(m protocolBody) {
	switch x := m.(type) {
	case *OffsetRequest:
		vAssume(!x.isReplicaIDSet || x.replicaID >= 0) // replica ids are non-negative; -1 is the wire form of "none"
	}
}


// C09: variable-length integers are zig-zag LEB128 of the value, for every 64-bit value.
func verifHarness_C09_varints() {
	n := vInt64("n")
	var prep prepEncoder
	prep.putVarint(n)
	real := realEncoder{raw: make([]byte, prep.length)}
	real.putVarint(n)
	vAssert(real.off == prep.length, "sizing-equals-writing")
	// spec: zig-zag then base-128 little endian with continuation bits
	z := uint64(n<<1) ^ uint64(n>>63)
	want := 1
	for v := z; v >= 0x80; v >>= 7 {
		want++
	}
	vAssert(prep.length == want, "length-is-ceil-bits-over-7")
	for i := 0; i < prep.length; i++ {
		group := byte(z>>(7*uint(i))) & 0x7f
		if i+1 < prep.length {
			group |= 0x80
		}
		vAssert(real.raw[i] == group, "zigzag-leb128-bytes")
	}
	rd := realDecoder{raw: real.raw}
	got, err := rd.getVarint()
	vAssert(err == nil && got == n && rd.off == prep.length, "varint-round-trip")
	// unsigned flavour
	u := vUint64("u")
	var prep2 prepEncoder
	prep2.putUVarint(u)
	real2 := realEncoder{raw: make([]byte, prep2.length)}
	real2.putUVarint(u)
	rd2 := realDecoder{raw: real2.raw}
	gu, err := rd2.getUVarint()
	vAssert(err == nil && gu == u && rd2.off == prep2.length && real2.off == prep2.length, "uvarint-round-trip")
	vReach()
}

// C09: record batches and legacy message sets in depth: every codec (axiomatised), all
// nil/empty/non-empty key and value combinations, headers, full-range offsets and timestamps;
// framing: length prefix, record length varints and the checksummed range are as prescribed.
func verifHarness_C09_recordBatch() {
	b := &RecordBatch{Version: 2, FirstOffset: vInt64("FirstOffset"), PartitionLeaderEpoch: vInt32("PartitionLeaderEpoch"),
		LastOffsetDelta: vInt32("LastOffsetDelta"),
		FirstTimestamp: vGenTime("FirstTimestamp"), MaxTimestamp: time.Unix(1600000002, 0),
		ProducerID: vInt64("ProducerID"), ProducerEpoch: vInt16("ProducerEpoch"), FirstSequence: vInt32("FirstSequence")}
	if vTier() > 0 {
		b.Codec = CompressionCodec(vChoose("Codec", 5))
		b.Control, b.LogAppendTime, b.IsTransactional = vBool("Control"), vBool("LogAppendTime"), vBool("IsTransactional")
	} else {
		b.Codec = []CompressionCodec{CompressionNone, CompressionZSTD}[vChoose("Codec", 2)]
		switch vChoose("attributes", 4) {
		case 1:
			b.Control = true
		case 2:
			b.LogAppendTime = true
		case 3:
			b.IsTransactional = true
		}
	}
	n := vChoose("records", 3)
	for i := 0; i < n; i++ {
		var r *Record
		if i == 0 {
			// the first record in full generality (every varint width, nil/empty/non-empty payloads)
			r = &Record{OffsetDelta: vInt64("OffsetDelta"), TimestampDelta: vGenDuration("TimestampDelta"), Key: vGenBytes("Key"), Value: vGenBytes("Value")}
			if vChoose("headers", 2) == 1 {
				h := &RecordHeader{Key: vBytes("HKey", 1)}
				if vChoose("HValue", 2) == 1 {
					h.Value = vBytes("HValue", 1)
				}
				r.Headers = []*RecordHeader{h}
			}
		} else {
			r = &Record{OffsetDelta: int64(i), Key: []byte{7}, Value: vBytes("Value2", 1)}
		}
		b.Records = append(b.Records, r)
	}
	before := vCRCCount()
	raw, err := encode(b, nil)
	vAssume(err == nil)
	// framing
	blen := int32(uint32(raw[8])<<24 | uint32(raw[9])<<16 | uint32(raw[10])<<8 | uint32(raw[11]))
	vAssert(int(blen) == len(raw)-12, "batch-length-prefix-covers-the-rest")
	vAssert(raw[16] == 2, "magic-byte-2")
	vAssert(vCRCCount() == before+1, "one-checksum")
	poly, cnt := vCRCInfo(before)
	vAssert(poly == 0x82f63b78 && cnt == len(raw)-21, "castagnoli-over-attributes-to-end")
	stored := uint32(raw[17])<<24 | uint32(raw[18])<<16 | uint32(raw[19])<<8 | uint32(raw[20])
	vAssert(stored == vCRCResult(before), "checksum-stored")
	nrec := int32(uint32(raw[57])<<24 | uint32(raw[58])<<16 | uint32(raw[59])<<8 | uint32(raw[60]))
	vAssert(int(nrec) == n, "record-count")
	var out RecordBatch
	err = decode(raw, &out)
	vAssert(err == nil && !out.PartialTrailingRecord, "decodes")
	if err != nil {
		return
	}
	vAssert(out.FirstOffset == b.FirstOffset && out.LastOffsetDelta == b.LastOffsetDelta && out.ProducerID == b.ProducerID &&
		out.ProducerEpoch == b.ProducerEpoch && out.FirstSequence == b.FirstSequence && out.PartitionLeaderEpoch == b.PartitionLeaderEpoch, "header-fields")
	vAssert(out.Codec == b.Codec && out.Control == b.Control && out.LogAppendTime == b.LogAppendTime && out.IsTransactional == b.IsTransactional, "attributes")
	vAssert(out.FirstTimestamp.Equal(b.FirstTimestamp) && out.MaxTimestamp.Equal(b.MaxTimestamp), "timestamps")
	vAssert(len(out.Records) == n, "record-count-decoded")
	for i := 0; i < n && i < len(out.Records); i++ {
		a, c := b.Records[i], out.Records[i]
		vAssert(a.OffsetDelta == c.OffsetDelta && a.TimestampDelta == c.TimestampDelta, "record-varints")
		vAssert(string(a.Key) == string(c.Key) && string(a.Value) == string(c.Value), "record-payload")
		vAssert((a.Key == nil) == (c.Key == nil) && (a.Value == nil) == (c.Value == nil), "nil-vs-empty-kept")
		vAssert(len(a.Headers) == len(c.Headers), "headers")
	}
	vReach()
}

func verifHarness_C09_messageSet() {
	version := int8(vChoose("version", 2))
	ms := &MessageSet{}
	n := 1 + vChoose("messages", 2)
	for i := 0; i < n; i++ {
		m := &Message{Version: version, Key: vGenBytes("Key"), Value: vGenBytes("Value")}
		if version >= 1 {
			m.Timestamp = vGenTime("Timestamp")
		}
		ms.Messages = append(ms.Messages, &MessageBlock{Offset: vInt64("Offset"), Msg: m})
	}
	wrap := vChoose("compressedWrapper", 2) == 1
	var top *MessageSet = ms
	if wrap {
		codec := CompressionCodec(1 + vChoose("Codec", 4))
		payload, err := encode(ms, nil)
		vAssume(err == nil)
		wm := &Message{Version: version, Codec: codec, Value: payload, Set: ms}
		if version >= 1 {
			wm.Timestamp = ms.Messages[0].Msg.Timestamp
		}
		top = &MessageSet{Messages: []*MessageBlock{{Offset: vInt64("WrapperOffset"), Msg: wm}}}
	}
	before := vCRCCount()
	raw, err := encode(top, nil)
	vAssume(err == nil)
	vAssert(vCRCCount() > before, "checksummed")
	poly, _ := vCRCInfo(before)
	vAssert(poly == 0xedb88320, "ieee-polynomial")
	// first message: 8-byte offset, 4-byte size covering crc..end of message
	sz := int32(uint32(raw[8])<<24 | uint32(raw[9])<<16 | uint32(raw[10])<<8 | uint32(raw[11]))
	if len(top.Messages) == 1 {
		vAssert(int(sz) == len(raw)-12, "message-size-prefix")
	}
	var out MessageSet
	err = decode(raw, &out)
	vAssert(err == nil && !out.PartialTrailingMessage, "decodes")
	if err != nil {
		return
	}
	vAssert(len(out.Messages) == len(top.Messages), "outer-count")
	var inner []*MessageBlock
	for _, mb := range out.Messages {
		inner = append(inner, mb.Messages()...)
	}
	vAssert(len(inner) == n, "inner-count")
	for i := 0; i < n && i < len(inner); i++ {
		a, c := ms.Messages[i], inner[i]
		vAssert(a.Offset == c.Offset, "offsets")
		vAssert(string(a.Msg.Key) == string(c.Msg.Key) && string(a.Msg.Value) == string(c.Msg.Value), "payload")
		vAssert((a.Msg.Key == nil) == (c.Msg.Key == nil) && (a.Msg.Value == nil) == (c.Msg.Value == nil), "nil-vs-empty-kept")
		if version >= 1 {
			vAssert(a.Msg.Timestamp.Equal(c.Msg.Timestamp), "timestamp")
		}
	}
	vReach()
}

// C09: the sizing pass and the writing pass of every length-prefixed primitive agree at the
// boundaries where a length prefix changes width (varint 63/64, 8191/8192; uvarint 126/127 ...),
// and the decoder reads back exactly what was written.
func verifHarness_C09_primitiveLengths() {
	lens := []int{0, 1, 62, 63, 64, 65, 126, 127, 128, 129, 8190, 8191, 8192, 8193, 16382, 16383, 16384}
	n := lens[vChoose("length", len(lens))]
	data := make([]byte, n)
	if n > 0 {
		data[0] = vByte("first")
		data[n-1] = vByte("last")
	}
	str := string(data)
	kind := vChoose("primitive", 7)
	var prep prepEncoder
	put := func(pe packetEncoder) error {
		switch kind {
		case 0:
			return pe.putVarintBytes(data)
		case 1:
			return pe.putBytes(data)
		case 2:
			return pe.putCompactBytes(data)
		case 3:
			return pe.putString(str)
		case 4:
			return pe.putCompactString(str)
		case 5:
			return pe.putNullableCompactString(&str)
		case 6:
			return pe.putRawBytes(data)
		}
		return nil
	}
	err := put(&prep)
	vAssume(err == nil)
	real := realEncoder{raw: make([]byte, prep.length)}
	err = put(&real)
	vAssert(err == nil, "writing-pass-succeeds")
	vAssert(real.off == prep.length, "sizing-pass-and-writing-pass-agree")
	rd := realDecoder{raw: real.raw}
	var got []byte
	switch kind {
	case 0:
		got, err = rd.getVarintBytes()
	case 1:
		got, err = rd.getBytes()
	case 2:
		got, err = rd.getCompactBytes()
	case 3:
		var s string
		s, err = rd.getString()
		got = []byte(s)
	case 4:
		var s string
		s, err = rd.getCompactString()
		got = []byte(s)
	case 5:
		var s *string
		s, err = rd.getCompactNullableString()
		if s != nil {
			got = []byte(*s)
		}
	case 6:
		got, err = rd.getRawBytes(n)
	}
	vAssert(err == nil && len(got) == n && rd.off == prep.length, "decoder-reads-back-the-same-length")
	if n > 0 && len(got) == n {
		vAssert(got[0] == data[0] && got[n-1] == data[n-1], "contents-preserved")
	}
	vReach()
}
