//go:build verif

package sarama

func vIdemScenario(mode int) vProdCfg {
	c := vProdScenario(mode)
	vAssume(c.idem)
	return c
}

// C05 P-sys: with idempotence on, against a broker enforcing pid/epoch/sequence rules,
// nothing is appended twice and every success is in the log exactly once.
func verifHarness_C05_sysFaults() {
	r := vRunProducer(vIdemScenario(0))
	r.assertC05()
	vReach()
}

func verifHarness_C05_sysSchedules() {
	r := vRunProducer(vIdemScenario(1))
	r.assertC05()
	vReach()
}
