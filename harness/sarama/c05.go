//go:build verif

package sarama

func vIdemScenario(mode int) vProdCfg {
	c := vProdScenario(mode)
	vAssume(c.idem)
	return c
}

// C05 P-sys: with idempotence on, against a broker enforcing pid/epoch/sequence rules,
// nothing is appended twice and every success is in the log exactly once.
func verifHarness_C05_sysFaults() {
	r := vRunProducer(vIdemScenario(0))
	r.assertC05()
	vReach()
}

func verifHarness_C05_sysSchedules() {
	r := vRunProducer(vIdemScenario(1))
	r.assertC05()
	vReach()
}


// Three messages over two partitions in the order p0, p1, p0 (sequence numbers of one
// partition must not be disturbed by another partition's traffic), with at most one fault.
func verifHarness_C05_sysInterleavedPartitions() {
	c := vProdCfg{n: 3, parts: 2, brokers: 1 + vChoose("brokers", 2), faults: 1, faultMenu: vfKinds, delay: 0,
		partsOf: []int32{0, 1, 0}, idem: true, retryMax: 1 + vChoose("retryMax", 2)}
	if vChoose("flush", 2) == 1 {
		c.flushMessages, c.flushFrequency = 2, true
	}
	c.class = vSprintf("interleaved,retryMax=%d,idem=true", c.retryMax)
	r := vRunProducer(c)
	r.assertC05()
	r.assertC01()
	vReach()
}

// C05: the broker answers per partition, so two partitions of one request can fail differently
// in the same response (e.g. one batch appended but answered with a retriable error while the
// neighbour's rejection bumps the epoch): the resent batch must still be recognised as a
// duplicate. Two partitions on one broker, 2..3 messages batched into one request.
func verifHarness_C05_sysTwoFaultsOneResponse() {
	c := vProdCfg{n: 2 + vChoose("extraMessage", 2), parts: 2, brokers: 1, faults: 2, faultMenu: vfKinds, delay: 0,
		idem: true, retryMax: 1 + vChoose("retryMax", 2), multiFault: true}
	c.flushMessages, c.flushFrequency = 2, true
	c.class = vSprintf("twoFaultsOneResponse,n=%d,retryMax=%d,idem=true", c.n, c.retryMax)
	r := vRunProducer(c)
	r.assertC05()
	r.assertC01()
	vCover("two-faults-in-one-response", len(r.cl.faultKinds) >= 3 && r.cl.faultKinds[1] == '+')
	vReach()
}

// C05 (S8): for every configuration, Validate()==nil with Idempotent set implies the settings
// the idempotence protocol needs.
func verifHarness_C05_validateIdempotent() {
	conf := NewConfig()
	conf.Producer.Idempotent = vChoose("idempotent", 2) == 1
	conf.Net.MaxOpenRequests = vInt("maxOpenRequests")
	conf.Producer.Retry.Max = vInt("retryMax")
	conf.Producer.RequiredAcks = RequiredAcks(vInt16("acks"))
	versions := []KafkaVersion{V0_8_2_0, V0_10_2_0, V0_11_0_0, V2_1_0_0}
	conf.Version = versions[vChoose("version", len(versions))]
	err := conf.Validate()
	if err == nil && conf.Producer.Idempotent {
		vAssert(conf.Net.MaxOpenRequests == 1, "one-request-in-flight")
		vAssert(conf.Producer.Retry.Max >= 1, "retries-enabled")
		vAssert(conf.Producer.RequiredAcks == WaitForAll, "acks-all")
		vAssert(conf.Version.IsAtLeast(V0_11_0_0), "version-supports-idempotence")
	}
	vCover("accepted-idempotent", err == nil && conf.Producer.Idempotent)
	vReach()
}
