//go:build verif

package sarama

func vIdemScenario(mode int) vProdCfg {
	c := vProdScenario(mode)
	vAssume(c.idem)
	return c
}

// C05 P-sys: with idempotence on, against a broker enforcing pid/epoch/sequence rules,
// nothing is appended twice and every success is in the log exactly once.
func verifHarness_C05_sysFaults() {
	r := vRunProducer(vIdemScenario(0))
	r.assertC05()
	vReach()
}

func verifHarness_C05_sysSchedules() {
	r := vRunProducer(vIdemScenario(1))
	r.assertC05()
	vReach()
}


// Three messages over two partitions in the order p0, p1, p0 (sequence numbers of one
// partition must not be disturbed by another partition's traffic), with at most one fault.
func verifHarness_C05_sysInterleavedPartitions() {
	c := vProdCfg{n: 3, parts: 2, brokers: 1 + vChoose("brokers", 2), faults: 1, faultMenu: vfKinds, delay: 0,
		partsOf: []int32{0, 1, 0}, idem: true, retryMax: 1 + vChoose("retryMax", 2)}
	if vChoose("flush", 2) == 1 {
		c.flushMessages, c.flushFrequency = 2, true
	}
	c.class = vSprintf("interleaved,retryMax=%d,idem=true", c.retryMax)
	r := vRunProducer(c)
	r.assertC05()
	r.assertC01()
	vReach()
}
