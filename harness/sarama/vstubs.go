//go:build verif

package sarama

// Environment stubs written in Go: the engine's override table redirects the named library
// functions here (see engine/api.go globalOverrides). They are interpreted like any other code.

import (
	"time"

	"github.com/eapache/go-resiliency/breaker"
	"github.com/rcrowley/go-metrics"
)

// ---------- fmt ----------

type vFmtError struct {
	msg     string
	wrapped error
}

func (e *vFmtError) Error() string { return e.msg }
func (e *vFmtError) Unwrap() error { return e.wrapped }

func vItoa(n int64) string {
	if n == 0 {
		return "0"
	}
	neg := n < 0
	var buf [24]byte
	i := len(buf)
	u := uint64(n)
	if neg {
		u = uint64(-n)
	}
	for u > 0 {
		i--
		buf[i] = byte('0' + u%10)
		u /= 10
	}
	if neg {
		i--
		buf[i] = '-'
	}
	return string(buf[i:])
}

type vStringer interface{ String() string }

func vFormatArg(a interface{}, verb byte) string {
	if verb == 'd' || verb == 'x' {
		// integer verbs print the number even when the type has an Error/String method
		switch x := a.(type) {
		case KError:
			return vItoa(int64(x))
		case CompressionCodec:
			return vItoa(int64(x))
		case RequiredAcks:
			return vItoa(int64(x))
		case ConfigResourceType:
			return vItoa(int64(x))
		}
	}
	switch x := a.(type) {
	case nil:
		return "<nil>"
	case string:
		return x
	case error:
		return x.Error()
	case vStringer:
		return x.String()
	case int:
		return vItoa(int64(x))
	case int8:
		return vItoa(int64(x))
	case int16:
		return vItoa(int64(x))
	case int32:
		return vItoa(int64(x))
	case int64:
		return vItoa(x)
	case uint8:
		return vItoa(int64(x))
	case uint16:
		return vItoa(int64(x))
	case uint32:
		return vItoa(int64(x))
	case uint64:
		return vItoa(int64(x))
	case uint:
		return vItoa(int64(x))
	case bool:
		if x {
			return "true"
		}
		return "false"
	case []byte:
		return string(x)
	}
	return "?"
}

func vSprintf(format string, a ...interface{}) string {
	// built by string concatenation so that formatted symbolic integers stay lazy in the engine
	out := ""
	ai := 0
	start := 0
	for i := 0; i < len(format); i++ {
		if format[i] != '%' {
			continue
		}
		out += format[start:i]
		i++
		// skip flags / width / precision
		for i < len(format) && (format[i] == '+' || format[i] == '-' || format[i] == '#' || format[i] == ' ' || format[i] == '.' || (format[i] >= '0' && format[i] <= '9')) {
			i++
		}
		if i >= len(format) {
			start = i
			break
		}
		start = i + 1
		if format[i] == '%' {
			out += "%"
			continue
		}
		if ai < len(a) {
			out += vFormatArg(a[ai], format[i])
			ai++
		} else {
			out += "%!(MISSING)"
		}
	}
	if start < len(format) {
		out += format[start:]
	}
	return out
}

func vSprint(a ...interface{}) string {
	out := ""
	for i, x := range a {
		if i > 0 {
			out += " "
		}
		out += vFormatArg(x, 'v')
	}
	return out
}

func vErrorf(format string, a ...interface{}) error {
	e := &vFmtError{msg: vSprintf(format, a...)}
	// %w wraps the first error operand
	for i := 0; i+1 < len(format); i++ {
		if format[i] == '%' && format[i+1] == 'w' {
			for _, x := range a {
				if w, ok := x.(error); ok {
					e.wrapped = w
					break
				}
			}
		}
	}
	return e
}

type vIsser interface{ Is(error) bool }
type vUnwrapper interface{ Unwrap() error }

func vErrorsIs(err, target error) bool {
	if target == nil {
		return err == target
	}
	for depth := 0; depth < 8; depth++ {
		if err == target {
			return true
		}
		if x, ok := err.(vIsser); ok && x.Is(target) {
			return true
		}
		u, ok := err.(vUnwrapper)
		if !ok {
			return false
		}
		err = u.Unwrap()
		if err == nil {
			return false
		}
	}
	return false
}

// ---------- sort.Slice: stable insertion sort through the real less closure ----------

func vSortSlice(x interface{}, less func(i, j int) bool) {
	n := vSliceLen(x)
	for i := 1; i < n; i++ {
		for j := i; j > 0 && less(j, j-1); j-- {
			vSliceSwap(x, j, j-1)
		}
	}
}

// ---------- go-metrics: no-op objects ----------

type vNopRegistry struct{}

func (vNopRegistry) Each(func(string, interface{}))                              {}
func (vNopRegistry) Get(string) interface{}                                      { return nil }
func (vNopRegistry) GetAll() map[string]map[string]interface{}                   { return nil }
func (vNopRegistry) GetOrRegister(n string, i interface{}) interface{}           { return i }
func (vNopRegistry) Register(string, interface{}) error                          { return nil }
func (vNopRegistry) RunHealthchecks()                                            {}
func (vNopRegistry) Unregister(string)                                           {}
func (vNopRegistry) UnregisterAll()                                              {}

func vNewRegistry() metrics.Registry                                        { return vNopRegistry{} }
func vGetOrRegisterMeter(name string, r metrics.Registry) metrics.Meter     { return metrics.NilMeter{} }
func vGetOrRegisterCounter(name string, r metrics.Registry) metrics.Counter { return metrics.NilCounter{} }
func vNewMeter() metrics.Meter                                              { return metrics.NilMeter{} }
func vNewCounter() metrics.Counter                                          { return metrics.NilCounter{} }
func vNewHistogram(s metrics.Sample) metrics.Histogram                      { return metrics.NilHistogram{} }
func vNewSample(reservoirSize int, alpha float64) metrics.Sample            { return metrics.NilSample{} }
func vGetOrRegisterHistogram(name string, r metrics.Registry) metrics.Histogram {
	return metrics.NilHistogram{}
}

// ---------- compression: axiomatised inverse pair ----------
// compress returns a tagged blob <0xC0, codec, len, payload...>; decompress inverts exactly
// such blobs and rejects everything else. The third-party codecs are outside every claim.

func vCompress(cc CompressionCodec, level int, data []byte) ([]byte, error) {
	if cc == CompressionNone {
		return data, nil
	}
	if cc < 0 || cc > CompressionZSTD {
		return nil, PacketEncodingError{"unsupported compression codec"}
	}
	out := make([]byte, 0, len(data)+3)
	out = append(out, 0xC0, byte(cc), byte(len(data)))
	out = append(out, data...)
	return out, nil
}

func vDecompress(cc CompressionCodec, data []byte) ([]byte, error) {
	if cc == CompressionNone {
		return data, nil
	}
	if cc < 0 || cc > CompressionZSTD {
		return nil, PacketDecodingError{"invalid compression specified"}
	}
	if len(data) < 3 || data[0] != 0xC0 || data[1] != byte(cc) || int(data[2]) != len(data)-3 {
		return nil, PacketDecodingError{"corrupt compressed payload"}
	}
	return data[3:], nil
}

func time0() (t time.Time) { return }

func vBreaker() *breaker.Breaker { return breaker.New(3, 1, 10*time.Second) }
