//go:build verif

package sarama

// Simulated cluster shared by the P-sys scenarios (producer side). Ordinary Go, interpreted
// by the engine; part of the trusted base of the checks that use it.

import "errors"

var errVConn = errors.New("verif: connection lost")

// vFakeClient implements Client for the producer / consumer / admin scenarios.
type vFakeClient struct {
	conf    *Config
	cl      *vCluster
	closed  bool
	nClose  int
	refresh int
}

func (c *vFakeClient) Config() *Config                      { return c.conf }
func (c *vFakeClient) Controller() (*Broker, error)         { return c.cl.brokers[0], nil }
func (c *vFakeClient) RefreshController() (*Broker, error)  { return c.cl.brokers[0], nil }
func (c *vFakeClient) Brokers() []*Broker                   { return c.cl.brokers }
func (c *vFakeClient) Broker(id int32) (*Broker, error)     { return c.cl.brokers[int(id)], nil }
func (c *vFakeClient) Topics() ([]string, error)            { return []string{"t"}, nil }
func (c *vFakeClient) RefreshBrokers(addrs []string) error  { return nil }
func (c *vFakeClient) RefreshCoordinator(g string) error    { return nil }
func (c *vFakeClient) Coordinator(g string) (*Broker, error) { return c.cl.brokers[0], nil }
func (c *vFakeClient) Closed() bool                         { return c.closed }
func (c *vFakeClient) Close() error                         { c.closed = true; c.nClose++; return nil }
func (c *vFakeClient) RefreshMetadata(topics ...string) error {
	c.refresh++
	return nil
}
func (c *vFakeClient) Partitions(topic string) ([]int32, error) {
	out := make([]int32, c.cl.nParts)
	for i := range out {
		out[i] = int32(i)
	}
	return out, nil
}
func (c *vFakeClient) WritablePartitions(topic string) ([]int32, error) { return c.Partitions(topic) }
func (c *vFakeClient) Leader(topic string, p int32) (*Broker, error) {
	if int(p) >= c.cl.nParts || p < 0 {
		return nil, ErrUnknownTopicOrPartition
	}
	return c.cl.brokers[c.cl.leader[p]], nil
}
func (c *vFakeClient) Replicas(t string, p int32) ([]int32, error)        { return nil, nil }
func (c *vFakeClient) InSyncReplicas(t string, p int32) ([]int32, error)  { return nil, nil }
func (c *vFakeClient) OfflineReplicas(t string, p int32) ([]int32, error) { return nil, nil }
func (c *vFakeClient) GetOffset(t string, p int32, tm int64) (int64, error) {
	if tm == OffsetOldest {
		return 0, nil
	}
	return int64(len(c.cl.logs[p])), nil
}
func (c *vFakeClient) InitProducerID() (*InitProducerIDResponse, error) {
	return &InitProducerIDResponse{ProducerID: 1000, ProducerEpoch: 0}, nil
}

type vLogEntry struct {
	id    byte // message id = first value byte
	pid   int64
	epoch int16
	seq   int32
}

type vBatchRec struct {
	epoch    int16
	firstSeq int32
	n        int
	base     int64
}

type vPartState struct {
	epoch   int16
	nextSeq int32
	recent  []vBatchRec
}

type vReqRec struct {
	broker   int32
	perPart  map[int32][]byte // ids per partition
	nMsgs    int
}

type vCluster struct {
	conf       *Config
	brokers    []*Broker
	nParts     int
	leader     map[int32]int
	logs       map[int32][]vLogEntry
	pstate     map[int32]*vPartState
	faultsLeft int
	faultMenu  int // number of fault kinds offered
	requests   []vReqRec
	idem       bool
	clog       map[int32][]*RecordBatch // consumer-side log (pre-built batches)
	clogEnd    map[int32]int64
	perFetch   int
	fetches    int
	violations []string
	sent       []vSentBatch
	faultKinds string        // kinds of the faults injected so far, in order (part of the failure class)
	holdFirst  bool          // withhold the answer to the first produce request ...
	release    chan struct{} // ... until the driver has submitted everything
	inFlightOnWire int
	maxOnWire  int
	multiFault bool // a second per-partition fault may hit the second partition of the same request
}

func vNewCluster(conf *Config, nBrokers, nParts, faults int) *vCluster {
	cl := &vCluster{conf: conf, nParts: nParts, leader: map[int32]int{}, logs: map[int32][]vLogEntry{},
		pstate: map[int32]*vPartState{}, faultsLeft: faults, idem: conf.Producer.Idempotent,
		clog: map[int32][]*RecordBatch{}, clogEnd: map[int32]int64{}}
	for i := 0; i < nBrokers; i++ {
		cl.brokers = append(cl.brokers, &Broker{id: int32(i), addr: "b"})
	}
	for p := 0; p < nParts; p++ {
		cl.leader[int32(p)] = p % nBrokers
		cl.pstate[int32(p)] = &vPartState{epoch: -1}
	}
	return cl
}

// fault kinds
const (
	vfNone          = iota
	vfRetriable     // retriable per-partition error, nothing appended
	vfRetriableApp  // retriable per-partition error although the batch was appended
	vfFatal         // non-retriable per-partition error
	vfConnBefore    // connection drops before the request is processed
	vfConnAfter     // appended, acknowledgement lost
	vfLeaderMove    // NotLeaderForPartition and the leadership moves to another broker
	vfMissingBlock  // response lacks the partition's block
	vfKinds
)

// vRecordsOf extracts (id, seq info) of every record of one partition of a produce request.
func vRecordsOf(r Records) (ids []byte, pid int64, epoch int16, firstSeq int32, keys [][]byte, vals [][]byte, isBatch bool) {
	if r.RecordBatch != nil {
		for _, rec := range r.RecordBatch.Records {
			id := byte(0)
			if len(rec.Value) > 0 {
				id = rec.Value[0]
			}
			ids = append(ids, id)
			keys = append(keys, rec.Key)
			vals = append(vals, rec.Value)
		}
		return ids, r.RecordBatch.ProducerID, r.RecordBatch.ProducerEpoch, r.RecordBatch.FirstSequence, keys, vals, true
	}
	if r.MsgSet != nil {
		for _, mb := range r.MsgSet.Messages {
			id := byte(0)
			if len(mb.Msg.Value) > 0 {
				id = mb.Msg.Value[0]
			}
			ids = append(ids, id)
			keys = append(keys, mb.Msg.Key)
			vals = append(vals, mb.Msg.Value)
		}
	}
	return ids, -1, -1, -1, keys, vals, false
}

// appendBatch applies the broker's idempotence rules and appends; returns (base offset, error code).
func (cl *vCluster) appendBatch(p int32, ids []byte, pid int64, epoch int16, firstSeq int32) (int64, KError) {
	st := cl.pstate[p]
	if cl.idem && pid >= 0 {
		cl.checkBatchShape(p, ids, epoch, firstSeq)
		if epoch < st.epoch {
			return -1, ErrInvalidProducerEpoch
		}
		if epoch > st.epoch {
			if firstSeq != 0 {
				return -1, ErrOutOfOrderSequenceNumber
			}
			st.epoch, st.nextSeq, st.recent = epoch, 0, nil
		}
		if firstSeq != st.nextSeq {
			for _, b := range st.recent {
				if b.epoch == epoch && b.firstSeq == firstSeq && b.n == len(ids) {
					// duplicate of a retained batch: Kafka answers with the original
					// offsets and no error (DUPLICATE_SEQUENCE_NUMBER is reserved for
					// batches older than the broker's cache, whose offset it cannot tell)
					return b.base, ErrNoError
				}
			}
			// older than everything the broker still remembers: a duplicate whose offset it
			// cannot tell; anything else is out of order (Kafka's ProducerStateManager rule)
			if len(st.recent) > 0 && firstSeq+int32(len(ids))-1 < st.recent[0].firstSeq && epoch == st.epoch {
				return -1, ErrDuplicateSequenceNumber
			}
			return -1, ErrOutOfOrderSequenceNumber
		}
	}
	base := int64(len(cl.logs[p]))
	for i, id := range ids {
		cl.logs[p] = append(cl.logs[p], vLogEntry{id: id, pid: pid, epoch: epoch, seq: firstSeq + int32(i)})
	}
	if cl.idem && pid >= 0 {
		st.nextSeq = firstSeq + int32(len(ids))
		st.recent = append(st.recent, vBatchRec{epoch: epoch, firstSeq: firstSeq, n: len(ids), base: base})
		if len(st.recent) > 5 {
			st.recent = st.recent[1:]
		}
	}
	return base, ErrNoError
}

type vSentBatch struct {
	p        int32
	epoch    int16
	firstSeq int32
	ids      string
}

// checkBatchShape: within an epoch every batch sent for a partition either continues the
// sequence of the batches sent so far or is an identical resend of one of them (C05).
func (cl *vCluster) checkBatchShape(p int32, ids []byte, epoch int16, firstSeq int32) {
	next := int32(0)
	for _, b := range cl.sent {
		if b.p == p && b.epoch == epoch {
			if b.firstSeq == firstSeq && b.ids == string(ids) {
				return // identical resend
			}
			if e := b.firstSeq + int32(len(b.ids)); e > next {
				next = e
			}
		}
	}
	if firstSeq != next {
		cl.violations = append(cl.violations, "batch-neither-in-sequence-nor-identical-resend")
	}
	cl.sent = append(cl.sent, vSentBatch{p, epoch, firstSeq, string(ids)})
}

// produce is installed in place of (*Broker).Produce.
func (cl *vCluster) produce(b *Broker, req *ProduceRequest) (*ProduceResponse, error) {
	cl.inFlightOnWire++
	if cl.inFlightOnWire > cl.maxOnWire {
		cl.maxOnWire = cl.inFlightOnWire
	}
	kind := vfNone
	if cl.faultsLeft > 0 {
		kind = vChoose("fault", cl.faultMenu)
		if kind != vfNone {
			cl.faultsLeft--
			cl.faultKinds += vItoa(int64(kind))
		}
	}
	kind2 := vfNone
	rec := vReqRec{broker: b.id, perPart: map[int32][]byte{}}
	// deterministic partition order
	var parts []int32
	for p := int32(0); int(p) < cl.nParts; p++ {
		if _, ok := req.records["t"][p]; ok {
			parts = append(parts, p)
		}
	}
	if cl.multiFault && len(parts) >= 2 && cl.faultsLeft > 0 && kind != vfNone && kind != vfConnBefore && kind != vfConnAfter {
		// the broker answers per partition: the second partition of the request may fail too, differently
		kind2 = []int{vfNone, vfRetriable, vfRetriableApp, vfFatal, vfLeaderMove, vfMissingBlock}[vChoose("fault2", 6)]
		if kind2 != vfNone {
			cl.faultsLeft--
			cl.faultKinds += "+" + vItoa(int64(kind2))
		}
	}
	if kind == vfConnBefore {
		cl.requests = append(cl.requests, rec)
		vYield()
		cl.inFlightOnWire--
		return nil, errVConn
	}
	resp := &ProduceResponse{Version: req.Version, Blocks: map[string]map[int32]*ProduceResponseBlock{"t": {}}}
	for i, p := range parts {
		ids, pid, epoch, firstSeq, _, _, _ := vRecordsOf(req.records["t"][p])
		rec.perPart[p] = ids
		rec.nMsgs += len(ids)
		blk := &ProduceResponseBlock{}
		// a per-partition fault hits the first partition of the request (kind2: the second)
		k := vfNone
		if i == 0 {
			k = kind
		} else if i == 1 {
			k = kind2
		}
		wrongLeader := cl.brokers[cl.leader[p]] != b
		switch {
		case wrongLeader:
			blk.Err = ErrNotLeaderForPartition
		case k == vfRetriable:
			blk.Err = ErrNotEnoughReplicas
		case k == vfFatal:
			blk.Err = ErrMessageSizeTooLarge
		case k == vfLeaderMove:
			blk.Err = ErrNotLeaderForPartition
			cl.leader[p] = (cl.leader[p] + 1) % len(cl.brokers)
		default:
			base, kerr := cl.appendBatch(p, ids, pid, epoch, firstSeq)
			blk.Err = kerr
			blk.Offset = base
			if k == vfRetriableApp && kerr == ErrNoError {
				blk.Err = ErrRequestTimedOut
				blk.Offset = -1
			}
		}
		if k != vfMissingBlock {
			resp.Blocks["t"][p] = blk
		}
	}
	cl.requests = append(cl.requests, rec)
	if cl.holdFirst && len(cl.requests) == 1 {
		<-cl.release // a slow broker: the application keeps submitting meanwhile
	}
	vYield() // response latency: other goroutines may run between append and acknowledgement
	cl.inFlightOnWire--
	if kind == vfConnAfter {
		return nil, errVConn
	}
	if req.RequiredAcks == NoResponse {
		return nil, nil
	}
	return resp, nil
}
