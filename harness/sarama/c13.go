//go:build verif

package sarama

// C13 range: each topic's subscribers (in hash order) get contiguous slices of the partition
// list whose sizes differ by at most one. All hash orders via a free hash.
func verifHarness_C13_range() {
	g := vGroupShape(3, 4)
	vRangeHashOverride()
	plan, err := BalanceStrategyRange.Plan(g.members, g.topics)
	vAssert(err == nil, "no-error")
	for topic, parts := range g.topics {
		subs := g.subscribers(topic)
		min, max := 1<<30, 0
		covered := 0
		for _, m := range subs {
			got := plan[m][topic]
			if len(got) < min {
				min = len(got)
			}
			if len(got) > max {
				max = len(got)
			}
			covered += len(got)
			// contiguous in the order of the partition list
			for i := 1; i < len(got); i++ {
				vAssert(got[i] == got[i-1]+1, "contiguous-range")
			}
		}
		vAssert(covered == len(parts), "ranges-cover-the-topic")
		vAssert(max-min <= 1, "range-sizes-differ-by-at-most-one")
	}
	vReach()
}

// Range rounding for larger n, m (concrete arithmetic per pair, hash order irrelevant).
func verifHarness_C13_rangeRounding() {
	n := vChoose("partitions", 13)
	m := 1 + vChoose("members", 4)
	var parts []int32
	for i := 0; i < n; i++ {
		parts = append(parts, int32(i))
	}
	ids := []string{"m0", "m1", "m2", "m3"}[:m]
	plan := BalanceStrategyPlan{}
	BalanceStrategyRange.coreFn(plan, ids, "a", parts)
	next := int32(0)
	min, max := 1<<30, 0
	for _, id := range ids {
		got := plan[id]["a"]
		for _, p := range got {
			vAssert(p == next, "contiguous-and-complete")
			next++
		}
		if len(got) < min {
			min = len(got)
		}
		if len(got) > max {
			max = len(got)
		}
	}
	vAssert(int(next) == n, "covers-all")
	vAssert(max-min <= 1, "sizes-differ-by-at-most-one")
	vReach()
}

func vIdentical(g *vGroup) bool {
	for _, id := range g.ids {
		if len(g.members[id].Topics) != len(g.tnames) {
			return false
		}
	}
	return true
}

// C13 round-robin: identical subscriptions => totals differ by at most one.
func verifHarness_C13_roundRobin() {
	g := vGroupShape(3, 4)
	vAssume(len(g.topics) > 0 && vIdentical(g))
	plan, err := BalanceStrategyRoundRobin.Plan(g.members, g.topics)
	vAssert(err == nil, "no-error")
	min, max := 1<<30, 0
	for _, id := range g.ids {
		c := g.count(plan, id)
		if c < min {
			min = c
		}
		if c > max {
			max = c
		}
	}
	vAssert(max-min <= 1, "totals-differ-by-at-most-one")
	vReach()
}

// Kafka's balance predicate for sticky plans: a member holding two or more partitions more
// than another holds none the other could take.
func (g *vGroup) vAssertKafkaBalanced(plan BalanceStrategyPlan) {
	for _, a := range g.ids {
		for _, b := range g.ids {
			if g.count(plan, a) >= g.count(plan, b)+2 {
				for topic, parts := range plan[a] {
					if len(parts) > 0 {
						vAssert(!strsContains(g.members[b].Topics, topic), "balanced-in-kafka's-sense")
					}
				}
			}
		}
	}
}

func vWithUserData(g *vGroup, plan BalanceStrategyPlan, gen int32) {
	for _, id := range g.ids {
		ud, err := (&stickyBalanceStrategy{}).AssignmentData(id, plan[id], gen)
		vAssume(err == nil)
		m := g.members[id]
		m.UserData = ud
		g.members[id] = m
	}
}

func vPlanEqual(a, b BalanceStrategyPlan, ids []string, topics []string) bool {
	for _, id := range ids {
		for _, t := range topics {
			x, y := a[id][t], b[id][t]
			if len(x) != len(y) {
				return false
			}
			for _, p := range x {
				found := false
				for _, q := range y {
					if p == q {
						found = true
					}
				}
				if !found {
					return false
				}
			}
		}
	}
	return true
}

// C13 sticky: balanced; re-planning an unchanged group returns the same plan (fixed point).
func verifHarness_C13_stickyFixedPoint() {
	g := vGroupShape(3, 3)
	s := &stickyBalanceStrategy{}
	plan0, err := s.Plan(g.members, g.topics)
	vAssert(err == nil, "no-error")
	g.vAssertValid(plan0)
	g.vAssertKafkaBalanced(plan0)
	vWithUserData(g, plan0, 1)
	plan1, err := (&stickyBalanceStrategy{}).Plan(g.members, g.topics)
	vAssert(err == nil, "no-error-round-2")
	g.vAssertValid(plan1)
	vAssert(vPlanEqual(plan0, plan1, g.ids, g.tnames), "replanning-unchanged-group-is-a-fixed-point")
	vReach()
}

// C13 sticky with identical subscriptions: a member leaves => the others keep everything;
// a member joins => no partition moves between old members.
func verifHarness_C13_stickyJoinLeave() {
	g := vGroupShape(3, 4)
	vAssume(vIdentical(g) && len(g.ids) >= 2 && len(g.topics) > 0)
	plan0, err := (&stickyBalanceStrategy{}).Plan(g.members, g.topics)
	vAssert(err == nil, "no-error")
	vWithUserData(g, plan0, 1)
	if vChoose("change", 2) == 0 {
		// the last member leaves
		gone := g.ids[len(g.ids)-1]
		delete(g.members, gone)
		g.ids = g.ids[:len(g.ids)-1]
		plan1, err := (&stickyBalanceStrategy{}).Plan(g.members, g.topics)
		vAssert(err == nil, "no-error-after-leave")
		g.vAssertValid(plan1)
		g.vAssertKafkaBalanced(plan1)
		for _, id := range g.ids {
			for _, t := range g.tnames {
				for _, p := range plan0[id][t] {
					kept := false
					for _, q := range plan1[id][t] {
						if p == q {
							kept = true
						}
					}
					vAssert(kept, "survivors-keep-everything-they-had")
				}
			}
		}
	} else {
		// a new member joins
		vAssume(len(g.ids) < 3)
		old := append([]string(nil), g.ids...)
		g.members["m9"] = ConsumerGroupMemberMetadata{Topics: append([]string(nil), g.tnames...)}
		g.ids = append(g.ids, "m9")
		plan1, err := (&stickyBalanceStrategy{}).Plan(g.members, g.topics)
		vAssert(err == nil, "no-error-after-join")
		g.vAssertValid(plan1)
		g.vAssertKafkaBalanced(plan1)
		for _, id := range old {
			for _, t := range g.tnames {
				for _, p := range plan1[id][t] {
					had := false
					for _, q := range plan0[id][t] {
						if p == q {
							had = true
						}
					}
					vAssert(had, "no-partition-moves-between-old-members")
				}
			}
		}
	}
	vReach()
}

// C13 P-step on the movement tracker that keeps the sticky strategy from swapping partitions
// pairwise: from any ownership of four partitions of one topic by three members, any sequence
// of 3 (4) reassignment requests "move partition p to member c" carried out the way
// reassignPartition does (getTheActualPartitionToBeMoved, then processPartitionMovement's
// movePartition). After every request: the member asked for gained exactly one partition of
// the topic, the tracker's records equal the net movements (original owner -> current owner)
// and no two partitions of the topic have moved in opposite directions between the same two
// members.
func verifHarness_C13_noPairwiseSwap() {
	members := []string{"A", "B", "C"}
	var parts [4]topicPartitionAssignment
	origin := map[topicPartitionAssignment]string{}
	owner := map[topicPartitionAssignment]string{}
	for i := range parts {
		parts[i] = topicPartitionAssignment{Topic: "t", Partition: int32(i)}
		m := members[vChoose("owner", 3)]
		origin[parts[i]], owner[parts[i]] = m, m
	}
	pm := partitionMovements{
		Movements:                 make(map[topicPartitionAssignment]consumerPair),
		PartitionMovementsByTopic: make(map[string]map[consumerPair]map[topicPartitionAssignment]bool),
	}
	K := 3
	if vTier() > 0 {
		K = 4
	}
	for step := 0; step < K; step++ {
		p := parts[vChoose("partition", 4)]
		c := members[vChoose("newOwner", 3)]
		vAssume(c != owner[p])
		before := 0
		for _, q := range parts {
			if owner[q] == c {
				before++
			}
		}
		q := pm.getTheActualPartitionToBeMoved(p, owner[p], c)
		vAssert(q.Topic == "t" && owner[q] != "", "moves-a-partition-of-the-topic")
		old := owner[q]
		pm.movePartition(q, old, c)
		owner[q] = c
		after := 0
		for _, r := range parts {
			if owner[r] == c {
				after++
			}
		}
		vAssert(after == before+1 || old == c, "requested-member-gains-one-partition")
		for _, r := range parts {
			rec, moved := pm.Movements[r]
			if origin[r] == owner[r] {
				vAssert(!moved, "no-record-for-a-partition-back-home")
			} else {
				vAssert(moved && rec.SrcMemberID == origin[r] && rec.DstMemberID == owner[r], "record-is-the-net-movement")
			}
		}
		for _, r1 := range parts {
			for _, r2 := range parts {
				a, ok1 := pm.Movements[r1]
				b, ok2 := pm.Movements[r2]
				if ok1 && ok2 {
					vAssert(!(a.SrcMemberID == b.DstMemberID && a.DstMemberID == b.SrcMemberID), "no-pairwise-swap-within-a-topic")
				}
			}
		}
	}
	vReach()
}
