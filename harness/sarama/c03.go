//go:build verif

package sarama

import "time"

func vChild(conf *Config, start int64) *partitionConsumer {
	c := &consumer{conf: conf, children: map[string]map[int32]*partitionConsumer{}, brokerConsumers: map[*Broker]*brokerConsumer{}}
	bc := &brokerConsumer{consumer: c, broker: &Broker{id: 1}}
	return &partitionConsumer{consumer: c, conf: conf, topic: "t", partition: 0,
		messages: make(chan *ConsumerMessage, 16), errors: make(chan *ConsumerError, 16),
		fetchSize: conf.Consumer.Fetch.Default, offset: start, broker: bc, preferredReadReplica: -1}
}

type vRec struct {
	off   int64
	id    byte
	batch int
}

// C03 P-unit (record batches): for every start offset and every faithful layout of 1..2
// (thorough 3) batches with 0..2 records each and arbitrary increasing offsets, parseResponse
// delivers exactly the records with offset >= S, in order, unaltered, and the consumer's next
// offset is beyond everything delivered without skipping an undelivered record.
func verifHarness_C03_parseRecordBatches() {
	conf := NewConfig()
	S := vInt64("S")
	vAssume(S >= 0 && S < 1<<40)
	child := vChild(conf, S)
	maxB := 2
	if vTier() > 0 {
		maxB = 3
	}
	nb := 1 + vChoose("batches", maxB)
	block := &FetchResponseBlock{HighWaterMarkOffset: vInt64("hwm")}
	var all []vRec
	prevLast := int64(-1) // last offset covered by the previous batch
	id := byte(1)
	logAppend := vChoose("logAppendTime", 2) == 1
	for b := 0; b < nb; b++ {
		first := vInt64("first")
		lastDelta := vInt32("lastDelta")
		vAssume(first > prevLast && first < 1<<41 && lastDelta >= 0 && lastDelta < 1<<20)
		batch := &RecordBatch{Version: 2, FirstOffset: first, LastOffsetDelta: lastDelta,
			FirstTimestamp: time.Unix(1600000000, 0), MaxTimestamp: time.Unix(1600000100, 0), LogAppendTime: logAppend}
		nr := vChoose("records", 3)
		prevDelta := int64(-1)
		for i := 0; i < nr; i++ {
			d := vInt64("delta")
			vAssume(d > prevDelta && d <= int64(lastDelta))
			prevDelta = d
			rec := &Record{OffsetDelta: d, Key: []byte{id}, Value: []byte{id, id}, TimestampDelta: time.Duration(int64(id)) * time.Millisecond}
			if i == 0 {
				rec.Headers = []*RecordHeader{{Key: []byte{id}, Value: []byte{id}}}
			}
			batch.Records = append(batch.Records, rec)
			all = append(all, vRec{off: first + d, id: id, batch: b})
			id++
		}
		if b == 0 {
			// a faithful broker starts with the batch whose range reaches the fetch offset
			vAssume(first+int64(lastDelta) >= S)
		}
		prevLast = first + int64(lastDelta)
		rs := newDefaultRecords(batch)
		block.RecordsSet = append(block.RecordsSet, &rs)
	}
	resp := &FetchResponse{Blocks: map[string]map[int32]*FetchResponseBlock{"t": {0: block}}}
	msgs, err := child.parseResponse(resp)
	vAssert(err == nil, "no-error")
	// oracle: exactly the records with offset >= S, in order
	k := 0
	for _, r := range all {
		if r.off >= S {
			vAssert(k < len(msgs), "nothing-skipped")
			if k < len(msgs) {
				m := msgs[k]
				vAssert(m.Offset == r.off, "offset-preserved")
				vAssert(len(m.Key) == 1 && m.Key[0] == r.id && len(m.Value) == 2 && m.Value[0] == r.id, "payload-unaltered")
				vAssert(m.Topic == "t" && m.Partition == 0, "topic-partition")
				if logAppend {
					vAssert(m.Timestamp.Equal(time.Unix(1600000100, 0)), "log-append-timestamp")
				} else {
					vAssert(m.Timestamp.Equal(time.Unix(1600000000, 0).Add(time.Duration(int64(r.id))*time.Millisecond)), "create-timestamp")
				}
			}
			k++
		}
	}
	vAssert(k == len(msgs), "nothing-extra-or-duplicated")
	for i := 1; i < len(msgs); i++ {
		vAssert(msgs[i-1].Offset < msgs[i].Offset, "strictly-increasing")
	}
	// post-state: progress, and the next offset is beyond all delivered records without
	// jumping over an undelivered one
	vAssert(child.offset > S, "progress")
	for _, m := range msgs {
		vAssert(m.Offset < child.offset, "next-offset-beyond-delivered")
	}
	for _, r := range all {
		if r.off >= S {
			vAssert(r.off < child.offset, "no-undelivered-record-jumped")
		}
	}
	vAssert(child.highWaterMarkOffset == block.HighWaterMarkOffset || len(all) == 0, "hwm-recorded")
	vCover("batch-starts-before-S", len(all) > 0 && all[0].off < S)
	vCover("delivers-two", len(msgs) >= 2)
	vReach()
}

// C03 P-unit (legacy message sets v0/v1, plain and compressed wrappers with relative offsets).
func verifHarness_C03_parseMessageSets() {
	conf := NewConfig()
	S := vInt64("S")
	vAssume(S >= 0 && S < 1<<40)
	child := vChild(conf, S)
	version := int8(vChoose("msgVersion", 2))
	ms := &MessageSet{}
	var all []vRec
	id := byte(1)
	prev := int64(-1)
	nb := 1 + vChoose("blocks", 2)
	for b := 0; b < nb; b++ {
		wrapper := vChoose("wrapper", 2) == 1
		if !wrapper {
			off := vInt64("off")
			vAssume(off > prev && off < 1<<41)
			prev = off
			ms.Messages = append(ms.Messages, &MessageBlock{Offset: off, Msg: &Message{Version: version, Key: []byte{id}, Value: []byte{id, id}}})
			all = append(all, vRec{off: off, id: id})
			id++
			continue
		}
		// compressed wrapper holding 2 inner messages
		inner := &MessageSet{}
		base := vInt64("base")
		gap := vInt64("gap")
		vAssume(base > prev && base < 1<<41 && gap >= 1 && gap < 1<<20)
		abs0, abs1 := base, base+gap
		if version >= 1 {
			// v1: inner offsets are relative (0..), the wrapper carries the absolute offset of the last inner message
			inner.Messages = append(inner.Messages, &MessageBlock{Offset: 0, Msg: &Message{Version: version, Key: []byte{id}, Value: []byte{id, id}}})
			inner.Messages = append(inner.Messages, &MessageBlock{Offset: gap, Msg: &Message{Version: version, Key: []byte{id + 1}, Value: []byte{id + 1, id + 1}}})
		} else {
			inner.Messages = append(inner.Messages, &MessageBlock{Offset: abs0, Msg: &Message{Version: version, Key: []byte{id}, Value: []byte{id, id}}})
			inner.Messages = append(inner.Messages, &MessageBlock{Offset: abs1, Msg: &Message{Version: version, Key: []byte{id + 1}, Value: []byte{id + 1, id + 1}}})
		}
		ms.Messages = append(ms.Messages, &MessageBlock{Offset: abs1, Msg: &Message{Version: version, Codec: CompressionGZIP, Set: inner}})
		all = append(all, vRec{off: abs0, id: id}, vRec{off: abs1, id: id + 1})
		id += 2
		prev = abs1
	}
	vAssume(all[len(all)-1].off >= S || true)
	rs := newLegacyRecords(ms)
	block := &FetchResponseBlock{RecordsSet: []*Records{&rs}}
	resp := &FetchResponse{Blocks: map[string]map[int32]*FetchResponseBlock{"t": {0: block}}}
	msgs, err := child.parseResponse(resp)
	vAssert(err == nil, "no-error")
	k := 0
	for _, r := range all {
		if r.off >= S {
			vAssert(k < len(msgs), "nothing-skipped")
			if k < len(msgs) {
				vAssert(msgs[k].Offset == r.off, "offset-preserved")
				vAssert(len(msgs[k].Key) == 1 && msgs[k].Key[0] == r.id && msgs[k].Value[0] == r.id, "payload-unaltered")
			}
			k++
		}
	}
	vAssert(k == len(msgs), "nothing-extra-or-duplicated")
	vAssert(child.offset > S, "progress")
	for _, m := range msgs {
		vAssert(m.Offset < child.offset, "next-offset-beyond-delivered")
	}
	vCover("wrapper-straddles-S", len(msgs) > 0 && len(msgs) < len(all))
	vReach()
}

// Fetch-size growth on partial trailing data: no overflow, capped, offset skipped only at the cap.
func verifHarness_C03_partialGrowth() {
	conf := NewConfig()
	conf.Consumer.Fetch.Default = vInt32("default")
	conf.Consumer.Fetch.Max = vInt32("max")
	vAssume(conf.Consumer.Fetch.Default > 0 && conf.Consumer.Fetch.Max >= 0)
	vAssume(conf.Consumer.Fetch.Max == 0 || conf.Consumer.Fetch.Max >= conf.Consumer.Fetch.Default)
	S := vInt64("S")
	vAssume(S >= 0 && S < 1<<40)
	child := vChild(conf, S)
	child.fetchSize = vInt32("fetchSize")
	vAssume(child.fetchSize >= conf.Consumer.Fetch.Default)
	vAssume(conf.Consumer.Fetch.Max == 0 || child.fetchSize <= conf.Consumer.Fetch.Max)
	before := child.fetchSize
	rs := newDefaultRecords(&RecordBatch{Version: 2, PartialTrailingRecord: true})
	block := &FetchResponseBlock{RecordsSet: []*Records{&rs}}
	resp := &FetchResponse{Blocks: map[string]map[int32]*FetchResponseBlock{"t": {0: block}}}
	msgs, err := child.parseResponse(resp)
	vAssert(err == nil && len(msgs) == 0, "partial-is-not-an-error")
	max := conf.Consumer.Fetch.Max
	if max > 0 && before == max {
		vAssert(child.offset == S+1 && child.fetchSize == before, "skips-only-at-the-cap")
		vAssert(len(child.errors) == 0 || !conf.Consumer.Return.Errors, "error-reported-when-enabled")
	} else {
		vAssert(child.offset == S, "no-skip-below-cap")
		vAssert(child.fetchSize > before || before == 2147483647, "fetch-size-grows")
		vAssert(child.fetchSize > 0, "no-overflow")
		vAssert(max == 0 || child.fetchSize <= max, "capped")
	}
	vReach()
}

func vConsScenario(mode int) vConsCfg { return vConsScenarioSized(mode, vTier() > 0) }

// vConsScenarioSized: big selects the thorough tier's sizes.
func vConsScenarioSized(mode int, big bool) vConsCfg {
	c := vConsCfg{nBatches: 2, recsPerBatch: 2, faultMenu: vcKinds, closeAfter: -1}
	if mode == 0 {
		c.faults, c.delay = 2, 0
	} else {
		c.faults, c.delay = 1, 1
	}
	if big {
		if mode == 0 {
			c.nBatches = 3
			c.faults = 3
		} else {
			c.delay = 2
		}
	}
	c.start = int64(vChoose("start", 3)) // 0: from the beginning, 1: inside the first batch, 2: second batch
	c.chanBuf = vChoose("chanBuf", 2)
	c.perFetch = 1 + vChoose("perFetch", 2)
	c.slowReader = vChoose("slowReader", 2) == 1
	if big && mode == 1 {
		// two scheduling delays are affordable only on a reduced configuration set
		vAssume(c.start == 1 && c.perFetch == 1 && c.chanBuf == 0)
	}
	vClass(vSprintf("start=%d,chanBuf=%d,perFetch=%d,slow=%v", c.start, c.chanBuf, c.perFetch, c.slowReader))
	return c
}

// C03 P-sys: the real partition consumer against the simulated log with per-fetch faults.
func verifHarness_C03_sysFaults() {
	c := vConsScenario(0)
	r := vRunConsumer(c)
	r.assertC03(c.start, true)
	vReach()
}

func verifHarness_C03_sysSchedules() {
	c := vConsScenario(1)
	r := vRunConsumer(c)
	r.assertC03(c.start, true)
	vReach()
}

// ---------- several partitions sharing a broker ----------

// a Client whose leader lookup for one partition fails a number of times (leader election)
type vFlakyLeaderClient struct {
	vFakeClient
	flakyPart int32
	failures  int
}

func (c *vFlakyLeaderClient) Leader(topic string, p int32) (*Broker, error) {
	if p == c.flakyPart && c.failures > 0 {
		c.failures--
		return nil, ErrLeaderNotAvailable
	}
	return c.vFakeClient.Leader(topic, p)
}

// verifHarness_C03_sysTwoPartitions: partitions 0 and 1 are led by the same broker and read by
// one Consumer. Partition 1 meets per-partition fetch errors (redispatch class / reported) and
// its leader lookup then fails 0..2 times before it succeeds; partition 0 is never at fault.
// Both partitions deliver their whole log in order, each record once: trouble of a neighbour
// neither stalls nor disturbs a partition whose leader is reachable.
func verifHarness_C03_sysTwoPartitions() {
	delay := 0
	if vTier() > 0 {
		delay = 1
	}
	vConfig("delay", delay)
	vConfig("ticks", 8)
	conf := NewConfig()
	conf.ChannelBufferSize = vChoose("chanBuf", 2)
	conf.Consumer.Return.Errors = true
	conf.Consumer.Retry.Backoff = 0
	conf.Consumer.MaxProcessingTime = 100 * time.Millisecond
	conf.Version = V0_11_0_0
	cl := vNewCluster(conf, 1, 2, 2)
	cl.perFetch = 1
	var logs [2][]vRec
	id := byte(1)
	for p := int32(0); p < 2; p++ {
		off := int64(0)
		for b := 0; b < 2; b++ {
			batch := &RecordBatch{Version: 2, FirstOffset: off, LastOffsetDelta: 1, ProducerID: -1, FirstTimestamp: time.Unix(1600000000, 0)}
			for i := 0; i < 2; i++ {
				batch.Records = append(batch.Records, &Record{OffsetDelta: int64(i), Key: []byte{id}, Value: []byte{id}})
				logs[p] = append(logs[p], vRec{off: off, id: id, batch: b})
				off++
				id++
			}
			cl.clog[p] = append(cl.clog[p], batch)
		}
		cl.clogEnd[p] = off
		cl.logs[p] = make([]vLogEntry, int(off))
	}
	client := &vFlakyLeaderClient{vFakeClient: vFakeClient{conf: conf, cl: cl}, flakyPart: 1}
	lookupFailures := vChoose("leaderLookupFailures", 3)
	faultKinds := ""
	vOverride("(*Broker).Fetch", func(b *Broker, req *FetchRequest) (*FetchResponse, error) {
		cl.fetches++
		vYield()
		resp := &FetchResponse{Blocks: map[string]map[int32]*FetchResponseBlock{"t": {}}, Version: req.Version}
		pending := false
		for p, rb := range req.blocks["t"] {
			if rb.fetchOffset < cl.clogEnd[p] {
				pending = true
			}
		}
		if !pending {
			<-time.After(conf.Consumer.MaxWaitTime)
		}
		for p := int32(0); p < 2; p++ {
			rb, ok := req.blocks["t"][p]
			if !ok {
				continue
			}
			blk := &FetchResponseBlock{HighWaterMarkOffset: cl.clogEnd[p], PreferredReadReplica: -1}
			kind := 0
			if p == 1 && cl.faultsLeft > 0 {
				kind = vChoose("neighbourFault", 3)
			}
			switch kind {
			case 1:
				cl.faultsLeft--
				faultKinds += "R"
				blk.Err = ErrNotLeaderForPartition
				client.failures = lookupFailures
			case 2:
				cl.faultsLeft--
				faultKinds += "E"
				blk.Err = ErrUnknown
				client.failures = lookupFailures
			default:
				for _, batch := range cl.clog[p] {
					if batch.LastOffset() >= rb.fetchOffset && len(blk.RecordsSet) < cl.perFetch {
						rs := newDefaultRecords(batch)
						blk.RecordsSet = append(blk.RecordsSet, &rs)
					}
				}
			}
			resp.Blocks["t"][p] = blk
		}
		return resp, nil
	})
	vOverride("(*Broker).Close", func(b *Broker) error { return nil })
	ci, err := newConsumer(client)
	vAssume(err == nil)
	var got [2][]*ConsumerMessage
	done := make(chan int32, 2)
	for p := int32(0); p < 2; p++ {
		pci, err := ci.ConsumePartition("t", p, 0)
		vAssume(err == nil)
		pc := pci.(*partitionConsumer)
		p := p
		go func() {
			for range pc.Errors() {
			}
		}()
		go func() {
			for m := range pc.Messages() {
				got[p] = append(got[p], m)
				if len(got[p]) == len(logs[p]) {
					pc.AsyncClose()
				}
			}
			done <- p
		}()
	}
	<-done
	<-done
	vClass(vSprintf("faults=%s,lookupFailures=%d", faultKinds, lookupFailures))
	for p := 0; p < 2; p++ {
		vAssert(len(got[p]) == len(logs[p]), "whole-log-delivered-on-both-partitions")
		for k, m := range got[p] {
			if k < len(logs[p]) {
				vAssert(m.Offset == logs[p][k].off, "in-order-each-once")
				vAssert(len(m.Key) == 1 && m.Key[0] == logs[p][k].id, "unaltered")
			}
		}
	}
	vAssert(ci.Close() == nil, "consumer-close")
	vCover("neighbour-redispatched-with-failed-lookup", len(faultKinds) > 0 && lookupFailures > 0)
	vReach()
}
