//go:build verif

package sarama

func vNewClientLiteral(conf *Config) *client {
	return &client{
		conf:                    conf,
		closer:                  make(chan none),
		closed:                  make(chan none),
		brokers:                 make(map[int32]*Broker),
		metadata:                make(map[string]map[int32]*PartitionMetadata),
		metadataTopics:          make(map[string]none),
		cachedPartitionsResults: make(map[string][maxPartitionIndex][]int32),
		coordinators:            make(map[string]int32),
	}
}

// C15 P-unit: after updateMetadata with an arbitrary second response, every answer of the
// client reflects exactly that response (and the brokers it lists).
func verifHarness_C15_updateMetadata() {
	conf := NewConfig()
	conf.Metadata.Retry.Backoff = 0
	c := vNewClientLiteral(conf)
	var closedBrokers []*Broker
	vOverride("safeAsyncClose", func(b *Broker) {
		vAssert(vHeld(&c.lock), "broker-table-changed-under-write-lock")
		closedBrokers = append(closedBrokers, b)
	})
	vOverride("(*Broker).Open", func(b *Broker, conf *Config) error { return nil })
	vOverride("(*client).RefreshMetadata", func(cl *client, topics ...string) error { return nil })
	// first response: a reachable earlier state
	old1, old2 := &Broker{id: 1, addr: "a:1"}, &Broker{id: 2, addr: "b:1"}
	r1 := &MetadataResponse{Brokers: []*Broker{old1, old2}, ControllerID: 1, Topics: []*TopicMetadata{
		{Name: "t", Partitions: []*PartitionMetadata{{ID: 0, Leader: 1, Replicas: []int32{1, 2}, Isr: []int32{1}}, {ID: 1, Leader: 2}}},
		{Name: "u", Partitions: []*PartitionMetadata{{ID: 0, Leader: 2}}},
	}}
	_, err := c.updateMetadata(r1, true)
	vAssert(err == nil, "first-update")
	// second response: arbitrary
	r2 := &MetadataResponse{ControllerID: vInt32("controller")}
	nb := vChoose("brokers", 3)
	addrs := []string{"a:1", "c:1"}
	brokerByID := map[int32]*Broker{}
	for i := 0; i < nb; i++ {
		b := &Broker{id: int32(1 + vChoose("brokerId", 3)), addr: addrs[vChoose("brokerAddr", 2)]}
		if brokerByID[b.id] != nil {
			vAssume(false) // a response lists a broker id once
		}
		brokerByID[b.id] = b
		r2.Brokers = append(r2.Brokers, b)
	}
	tm := &TopicMetadata{Name: "t", Err: KError(vInt16("topicErr"))}
	np := vChoose("partitions", 3)
	var parts []*PartitionMetadata
	for i := 0; i < np; i++ {
		pm := &PartitionMetadata{ID: vInt32("pid"), Leader: vInt32("leader"), Err: KError(vInt16("partErr")),
			Replicas: []int32{int32(10 + i)}, Isr: []int32{int32(20 + i)}, OfflineReplicas: []int32{int32(30 + i)}}
		for _, q := range parts {
			vAssume(q.ID != pm.ID)
		}
		parts = append(parts, pm)
	}
	tm.Partitions = parts
	r2.Topics = []*TopicMetadata{tm}
	all := vChoose("allKnownMetaData", 2) == 1
	retry, err := c.updateMetadata(r2, all)
	vAssert(!vHeld(&c.lock), "lock-released")

	// ---- brokers: exactly those of the newest response; readdressed ones replaced ----
	vAssert(len(c.brokers) == len(brokerByID), "brokers-absent-from-response-dropped")
	for id, b := range brokerByID {
		got := c.brokers[id]
		vAssert(got != nil && got.addr == b.addr, "broker-table-has-newest-address")
		if id == 1 && b.addr == "a:1" {
			vAssert(got == old1, "unchanged-broker-kept-not-bounced")
		}
	}
	vAssert(c.controllerID == r2.ControllerID, "controller-id-updated")

	// ---- topic error classes ----
	stored := tm.Err == ErrNoError || tm.Err == ErrLeaderNotAvailable
	if !stored {
		vAssert(err == tm.Err, "topic-error-returned")
		vAssert(c.cachedPartitions("t", allPartitions) == nil && c.metadata["t"] == nil, "errored-topic-forgotten")
		vAssert(retry == (tm.Err == ErrUnknownTopicOrPartition), "retry-only-for-unknown-topic")
	} else {
		// partition list = ids of the newest response, sorted
		got := c.cachedPartitions("t", allPartitions)
		vAssert(len(got) == np, "partition-list-has-newest-ids")
		for i := 1; i < len(got); i++ {
			vAssert(got[i-1] < got[i], "partition-list-sorted")
		}
		for _, pm := range parts {
			found := false
			for _, id := range got {
				if id == pm.ID {
					found = true
				}
			}
			vAssert(found, "every-partition-listed")
		}
		w := c.cachedPartitions("t", writablePartitions)
		nw := 0
		for _, pm := range parts {
			inW := false
			for _, id := range w {
				if id == pm.ID {
					inW = true
				}
			}
			if pm.Err == ErrLeaderNotAvailable {
				vAssert(!inW, "leaderless-partition-not-writable")
			} else {
				vAssert(inW, "partition-with-leader-writable")
				nw++
			}
		}
		vAssert(len(w) == nw, "writable-list-exact")
		for _, pm := range parts {
			ldr, lerr := c.Leader("t", pm.ID)
			switch {
			case pm.Err == ErrLeaderNotAvailable:
				vAssert(ldr == nil && lerr == ErrLeaderNotAvailable, "leader-not-available-reported")
			case brokerByID[pm.Leader] == nil:
				vAssert(ldr == nil && lerr == ErrLeaderNotAvailable, "unknown-leader-id-is-not-available-never-a-stale-broker")
			default:
				vAssert(lerr == nil && ldr != nil && ldr.id == pm.Leader && ldr.addr == brokerByID[pm.Leader].addr, "leader-is-the-listed-broker")
			}
			rep, rerr := c.Replicas("t", pm.ID)
			if pm.Err == ErrReplicaNotAvailable {
				vAssert(rerr != nil, "replica-error-surfaces")
			} else {
				vAssert(rerr == nil && len(rep) == 1 && rep[0] == pm.Replicas[0], "replicas-from-newest-response")
			}
			isr, ierr := c.InSyncReplicas("t", pm.ID)
			if pm.Err != ErrReplicaNotAvailable {
				vAssert(ierr == nil && len(isr) == 1 && isr[0] == pm.Isr[0], "isr-from-newest-response")
			}
		}
		wantRetry := tm.Err == ErrLeaderNotAvailable
		for _, pm := range parts {
			if pm.Err == ErrLeaderNotAvailable {
				wantRetry = true
			}
		}
		vAssert(retry == wantRetry && err == nil, "retry-iff-something-is-leaderless")
	}
	// the other topic: kept on a per-topic refresh, forgotten on a full one
	if all {
		vAssert(c.cachedPartitions("u", allPartitions) == nil, "full-refresh-forgets-unlisted-topics")
	} else {
		up := c.cachedPartitions("u", allPartitions)
		vAssert(len(up) == 1 && up[0] == 0, "per-topic-refresh-keeps-other-topics")
	}
	vCover("leader-unknown-broker", np > 0 && stored && brokerByID[parts[0].Leader] == nil)
	vReach()
}

// C15 P-unit: a refresh succeeds whenever at least one seed or known broker answers.
func verifHarness_C15_refreshAnyBroker() {
	conf := NewConfig()
	conf.Metadata.Retry.Backoff = 0
	conf.Metadata.Retry.Max = vChoose("retryMax", 2)
	c := vNewClientLiteral(conf)
	nSeeds := 1 + vChoose("seeds", 2)
	for i := 0; i < nSeeds; i++ {
		c.seedBrokers = append(c.seedBrokers, &Broker{id: -1, addr: "seed"})
	}
	if vChoose("knownBroker", 2) == 1 {
		c.brokers[7] = &Broker{id: 7, addr: "k:1"}
	}
	const (
		ok = iota
		kerr
		transport
	)
	outcome := map[*Broker]int{}
	asked := 0
	good := &MetadataResponse{Brokers: []*Broker{{id: 7, addr: "k:1"}}, Topics: []*TopicMetadata{{Name: "t", Partitions: []*PartitionMetadata{{ID: 0, Leader: 7}}}}}
	vOverride("(*Broker).Open", func(b *Broker, conf *Config) error { return nil })
	vOverride("(*Broker).Close", func(b *Broker) error { return nil })
	vOverride("safeAsyncClose", func(b *Broker) {})
	vOverride("(*Broker).GetMetadata", func(b *Broker, req *MetadataRequest) (*MetadataResponse, error) {
		asked++
		o, seen := outcome[b]
		if !seen {
			o = vChoose("brokerOutcome", 3)
			outcome[b] = o
		}
		switch o {
		case ok:
			return good, nil
		case kerr:
			return nil, ErrUnknown
		}
		return nil, errVConn
	})
	total := nSeeds + len(c.brokers)
	err := c.tryRefreshMetadata([]string{"t"}, conf.Metadata.Retry.Max, time0())
	anyOK := false
	for _, o := range outcome {
		if o == ok {
			anyOK = true
		}
	}
	if anyOK {
		vAssert(err == nil, "refresh-succeeds-if-one-broker-answers")
		vAssert(len(c.cachedPartitions("t", allPartitions)) == 1, "metadata-installed")
	} else {
		vAssert(err == ErrOutOfBrokers, "all-dead-is-out-of-brokers")
		vAssert(len(c.seedBrokers) == nSeeds && len(c.deadSeeds) == 0, "dead-seeds-resurrected")
	}
	vAssert(asked <= total*(conf.Metadata.Retry.Max+1), "attempts-bounded")
	vAssert(!vHeld(&c.lock), "lock-released")
	vCover("fallback-to-second-broker", anyOK && asked >= 2)
	vReach()
}
