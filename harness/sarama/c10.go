//go:build verif

package sarama

func vMax(a, b int) int {
	if a > b {
		return a
	}
	return b
}

func vLenMenu() []int {
	if vTier() == 0 {
		return []int{0, 3, 12}
	}
	return []int{0, 1, 2, 3, 4, 5, 6, 7, 8, 10, 12, 14}
}

// the decoders that are not protocol bodies are few: longer buffers are affordable
func vLenMenuOther() []int {
	if vTier() == 0 {
		return []int{0, 3, 12}
	}
	return []int{0, 1, 2, 3, 4, 5, 6, 7, 8, 10, 12, 14, 16, 20}
}

// C10-A: every response type and version on an arbitrary buffer of length L: no panic, no
// hang, no allocation whose element count is input-controlled beyond max(L,16).
func verifHarness_C10_responses() {
	vConfig("hang", 1)
	var resp []int
	for i, b := range vBodies {
		if b.isResponse {
			resp = append(resp, i)
		}
	}
	b := vBodies[resp[vChoose("body", len(resp))]]
	ver := int16(vChoose("version", int(b.maxVersion)+1))
	menu := vLenMenu()
	L := menu[vChoose("len", len(menu))]
	buf := vBytes("buf", L)
	vAllocLimit(vMax(L, 16))
	body := b.mk(ver)
	vNote(b.name)
	err := versionedDecode(buf, body, ver)
	_ = err
	vReach()
}

// C10-A for the decoders that are not protocol bodies: record batches, message sets, the
// records union, group member metadata/assignment and sticky user data written by other members.
func verifHarness_C10_otherDecoders() {
	vConfig("hang", 1)
	menu := vLenMenuOther()
	L := menu[vChoose("len", len(menu))]
	buf := vBytes("buf", L)
	vAllocLimit(vMax(L, 16))
	switch vChoose("decoder", 8) {
	case 0:
		_ = decode(buf, &RecordBatch{})
	case 1:
		_ = decode(buf, &MessageSet{})
	case 2:
		_ = decode(buf, &Records{})
	case 3:
		_ = decode(buf, &ConsumerGroupMemberMetadata{})
	case 4:
		_ = decode(buf, &ConsumerGroupMemberAssignment{})
	case 5:
		_, _ = deserializeTopicPartitionAssignment(buf)
	case 6:
		_ = versionedDecode(buf, &responseHeader{}, int16(vChoose("hv", 2)))
	case 7:
		_ = decode(buf, &Message{})
	}
	vReach()
}

func vSampleBatch() *RecordBatch {
	return &RecordBatch{
		Version: 2, FirstOffset: 5, LastOffsetDelta: 1, ProducerID: -1, ProducerEpoch: -1, FirstSequence: -1,
		Records: []*Record{
			{OffsetDelta: 0, Key: []byte{1}, Value: []byte{2, 3}, Headers: []*RecordHeader{{Key: []byte{4}, Value: []byte{5}}}},
			{OffsetDelta: 1, Value: []byte{6}},
		},
	}
}

// C10-B: a valid record batch with a window of w arbitrary bytes at every position.
// No panic / hang / disproportionate allocation; and whenever decoding succeeds the stored
// checksum was compared with the Castagnoli CRC of exactly attributes..end of batch.
func verifHarness_C10_recordBatchMutation() {
	vConfig("hang", 1)
	raw, err := encode(vSampleBatch(), nil)
	vAssume(err == nil)
	// a window of w arbitrary bytes at every position (clipped at the end); a w-byte window
	// subsumes every narrower one at the same position
	w := 4 // both tiers: 5- and 6-byte windows were measured at 25+ minutes for this harness alone
	pos := vChoose("pos", len(raw))
	for i := 0; i < w && pos+i < len(raw); i++ {
		raw[pos+i] = vByte("m")
	}
	// the stored checksum is arbitrary as well (corruption or a sender that recomputed it)
	for i := 17; i < 21; i++ {
		raw[i] = vByte("crcfield")
	}
	vAllocLimit(vMax(len(raw), 16))
	var out RecordBatch
	before := vCRCCount()
	err = decode(raw, &out)
	if err == nil && !out.PartialTrailingRecord {
		n := vCRCCount()
		vAssert(n == before+1, "crc-consulted-once")
		poly, cnt := vCRCInfo(n - 1)
		vAssert(poly == 0x82f63b78, "crc-castagnoli")
		vAssert(cnt == len(raw)-21, "crc-covers-attributes-to-end")
		stored := uint32(raw[17])<<24 | uint32(raw[18])<<16 | uint32(raw[19])<<8 | uint32(raw[20])
		vAssert(vCRCResult(n-1) == stored, "crc-enforced")
		// the length prefix agrees with the data consumed
		blen := int32(uint32(raw[8])<<24 | uint32(raw[9])<<16 | uint32(raw[10])<<8 | uint32(raw[11]))
		vAssert(int(blen) == len(raw)-12, "length-agrees")
		vCover("accepted", true)
	}
	vReach()
}

// Truncation of a valid batch at every position: error or partial-trailing flag, never records.
func verifHarness_C10_recordBatchTruncation() {
	vConfig("hang", 1)
	raw, err := encode(vSampleBatch(), nil)
	vAssume(err == nil)
	cut := vChoose("cut", len(raw))
	var out RecordBatch
	err = decode(raw[:cut], &out)
	vAssert(err != nil || out.PartialTrailingRecord || cut == 0, "truncated-not-accepted")
	vAssert(len(out.Records) == 0 || err != nil, "no-records-from-truncated")
	vReach()
}

func vSampleMessageSet(version int8) *MessageSet {
	ms := &MessageSet{}
	ms.addMessage(&Message{Version: version, Key: []byte{1}, Value: []byte{2, 3}})
	ms.addMessage(&Message{Version: version, Value: []byte{4}})
	ms.Messages[0].Offset = 7
	ms.Messages[1].Offset = 8
	return ms
}

func verifHarness_C10_messageSetMutation() {
	vConfig("hang", 1)
	version := int8(vChoose("msgversion", 2))
	raw, err := encode(vSampleMessageSet(version), nil)
	vAssume(err == nil)
	w := 4
	if vTier() > 0 {
		w = 8
	}
	pos := vChoose("pos", len(raw))
	for i := 0; i < w && pos+i < len(raw); i++ {
		raw[pos+i] = vByte("m")
	}
	vAllocLimit(vMax(len(raw), 16))
	var out MessageSet
	before := vCRCCount()
	err = decode(raw, &out)
	if err == nil {
		n := vCRCCount()
		// every message handed out had its IEEE CRC checked over magic..end of message
		vAssert(n-before == len(out.Messages) || out.PartialTrailingMessage || out.OverflowMessage, "crc-per-message")
		for k := before; k < n; k++ {
			poly, _ := vCRCInfo(k)
			vAssert(poly == 0xedb88320, "crc-ieee")
		}
		vCover("accepted", true)
	}
	vReach()
}

// C10 P-unit on the decoder primitives themselves: every primitive on an arbitrary 12-byte
// buffer (every byte free, so 10-byte varints with any high bits are included): no panic, no
// input-controlled allocation, and the read position never leaves the buffer.
func verifHarness_C10_primitives() {
	vConfig("hang", 1)
	L := 12
	if vTier() > 0 {
		L = 16
	}
	buf := vBytes("buf", L)
	vAllocLimit(vMax(L, 16))
	rd := &realDecoder{raw: buf}
	rd.off = vChoose("startOffset", 3) // primitives are called at any position
	var err error
	switch vChoose("primitive", 20) {
	case 0:
		_, err = rd.getCompactString()
	case 1:
		_, err = rd.getCompactNullableString()
	case 2:
		_, err = rd.getCompactBytes()
	case 3:
		_, err = rd.getCompactArrayLength()
	case 4:
		_, err = rd.getCompactInt32Array()
	case 5:
		_, err = rd.getString()
	case 6:
		_, err = rd.getNullableString()
	case 7:
		_, err = rd.getBytes()
	case 8:
		_, err = rd.getVarintBytes()
	case 9:
		_, err = rd.getStringArray()
	case 10:
		_, err = rd.getInt32Array()
	case 11:
		_, err = rd.getInt64Array()
	case 12:
		var n int
		n, err = rd.getArrayLength()
		if err == nil {
			vAssert(n >= -1 && n <= rd.remaining(), "array-length-within-remaining")
		}
	case 13:
		_, err = rd.getVarint()
	case 14:
		_, err = rd.getUVarint()
	case 15:
		_, err = rd.getSubset(int(vInt32("subsetLen")))
	case 16:
		_, err = rd.getRawBytes(int(vInt32("rawLen")))
	case 17:
		// peek is only ever called with constant non-negative arguments (magic byte lookups)
		po, pl := int(vInt16("peekOff")), int(vInt16("peekLen"))
		vAssume(po >= 0 && pl >= 0)
		_, err = rd.peek(po, pl)
	case 18:
		_, err = rd.getEmptyTaggedFieldArray()
	case 19:
		_, err = rd.getBool()
	}
	vAssert(rd.off >= 0 && rd.off <= len(buf), "read-position-stays-inside-the-buffer")
	_ = err
	vReach()
}

// C10 on the fetch path as a whole: a fetch response block (every version class of the block
// layout) whose records section consists of n arbitrary bytes, decoded through the real
// FetchResponseBlock.decode loop (magic detection, Records union, legacy message sets incl.
// nested compressed sets, record batches, partial trailing data): no panic, no endless loop
// (every pass of the loop consumes input), no disproportionate allocation.
func verifHarness_C10_fetchBlockRecords() {
	vConfig("hang", 1)
	ver := []int16{0, 4, 5, 11}[vChoose("blockVersion", 4)]
	n := []int{17, 26, 34}[vChoose("recordsLen", 3)]
	if vTier() > 0 {
		n = []int{17, 22, 26, 30, 34, 40, 48, 56}[vChoose("recordsLenT", 8)]
	}
	raw := []byte{0, 0, 0, 0, 0, 0, 0, 0, 0, 50} // no error, high-water mark
	if ver >= 4 {
		raw = append(raw, 0, 0, 0, 0, 0, 0, 0, 50) // last stable offset
		if ver >= 5 {
			raw = append(raw, 0, 0, 0, 0, 0, 0, 0, 0) // log start offset
		}
		raw = append(raw, 0, 0, 0, 0) // no aborted transactions
	}
	if ver >= 11 {
		raw = append(raw, 0xff, 0xff, 0xff, 0xff) // preferred read replica
	}
	raw = append(raw, byte(n>>24), byte(n>>16), byte(n>>8), byte(n))
	raw = append(raw, vBytes("records", n)...)
	vAllocLimit(vMax(len(raw), 16))
	var blk FetchResponseBlock
	err := versionedDecode(raw, &blk, ver)
	if err == nil {
		vCover("accepted", true)
	}
	vReach()
}
