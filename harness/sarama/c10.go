//go:build verif

package sarama

func vMax(a, b int) int {
	if a > b {
		return a
	}
	return b
}

func vLenMenu() []int {
	if vTier() == 0 {
		return []int{0, 3, 12}
	}
	return []int{0, 1, 2, 3, 5, 8, 12, 16, 24}
}

// C10-A: every response type and version on an arbitrary buffer of length L: no panic, no
// hang, no allocation whose element count is input-controlled beyond max(L,16).
func verifHarness_C10_responses() {
	vConfig("hang", 1)
	var resp []int
	for i, b := range vBodies {
		if b.isResponse {
			resp = append(resp, i)
		}
	}
	b := vBodies[resp[vChoose("body", len(resp))]]
	ver := int16(vChoose("version", int(b.maxVersion)+1))
	menu := vLenMenu()
	L := menu[vChoose("len", len(menu))]
	buf := vBytes("buf", L)
	vAllocLimit(vMax(L, 16))
	body := b.mk(ver)
	vNote(b.name)
	err := versionedDecode(buf, body, ver)
	_ = err
	vReach()
}

// C10-A for the decoders that are not protocol bodies: record batches, message sets, the
// records union, group member metadata/assignment and sticky user data written by other members.
func verifHarness_C10_otherDecoders() {
	vConfig("hang", 1)
	menu := vLenMenu()
	L := menu[vChoose("len", len(menu))]
	buf := vBytes("buf", L)
	vAllocLimit(vMax(L, 16))
	switch vChoose("decoder", 8) {
	case 0:
		_ = decode(buf, &RecordBatch{})
	case 1:
		_ = decode(buf, &MessageSet{})
	case 2:
		_ = decode(buf, &Records{})
	case 3:
		_ = decode(buf, &ConsumerGroupMemberMetadata{})
	case 4:
		_ = decode(buf, &ConsumerGroupMemberAssignment{})
	case 5:
		_, _ = deserializeTopicPartitionAssignment(buf)
	case 6:
		_ = versionedDecode(buf, &responseHeader{}, int16(vChoose("hv", 2)))
	case 7:
		_ = decode(buf, &Message{})
	}
	vReach()
}

func vSampleBatch() *RecordBatch {
	return &RecordBatch{
		Version: 2, FirstOffset: 5, LastOffsetDelta: 1, ProducerID: -1, ProducerEpoch: -1, FirstSequence: -1,
		Records: []*Record{
			{OffsetDelta: 0, Key: []byte{1}, Value: []byte{2, 3}, Headers: []*RecordHeader{{Key: []byte{4}, Value: []byte{5}}}},
			{OffsetDelta: 1, Value: []byte{6}},
		},
	}
}

// C10-B: a valid record batch with a window of w arbitrary bytes at every position.
// No panic / hang / disproportionate allocation; and whenever decoding succeeds the stored
// checksum was compared with the Castagnoli CRC of exactly attributes..end of batch.
func verifHarness_C10_recordBatchMutation() {
	vConfig("hang", 1)
	raw, err := encode(vSampleBatch(), nil)
	vAssume(err == nil)
	// a window of w arbitrary bytes at every position (clipped at the end); a w-byte window
	// subsumes every narrower one at the same position
	w := 4
	if vTier() > 0 {
		w = 8
	}
	pos := vChoose("pos", len(raw))
	for i := 0; i < w && pos+i < len(raw); i++ {
		raw[pos+i] = vByte("m")
	}
	// the stored checksum is arbitrary as well (corruption or a sender that recomputed it)
	for i := 17; i < 21; i++ {
		raw[i] = vByte("crcfield")
	}
	vAllocLimit(vMax(len(raw), 16))
	var out RecordBatch
	before := vCRCCount()
	err = decode(raw, &out)
	if err == nil && !out.PartialTrailingRecord {
		n := vCRCCount()
		vAssert(n == before+1, "crc-consulted-once")
		poly, cnt := vCRCInfo(n - 1)
		vAssert(poly == 0x82f63b78, "crc-castagnoli")
		vAssert(cnt == len(raw)-21, "crc-covers-attributes-to-end")
		stored := uint32(raw[17])<<24 | uint32(raw[18])<<16 | uint32(raw[19])<<8 | uint32(raw[20])
		vAssert(vCRCResult(n-1) == stored, "crc-enforced")
		// the length prefix agrees with the data consumed
		blen := int32(uint32(raw[8])<<24 | uint32(raw[9])<<16 | uint32(raw[10])<<8 | uint32(raw[11]))
		vAssert(int(blen) == len(raw)-12, "length-agrees")
		vCover("accepted", true)
	}
	vReach()
}

// Truncation of a valid batch at every position: error or partial-trailing flag, never records.
func verifHarness_C10_recordBatchTruncation() {
	vConfig("hang", 1)
	raw, err := encode(vSampleBatch(), nil)
	vAssume(err == nil)
	cut := vChoose("cut", len(raw))
	var out RecordBatch
	err = decode(raw[:cut], &out)
	vAssert(err != nil || out.PartialTrailingRecord || cut == 0, "truncated-not-accepted")
	vAssert(len(out.Records) == 0 || err != nil, "no-records-from-truncated")
	vReach()
}

func vSampleMessageSet(version int8) *MessageSet {
	ms := &MessageSet{}
	ms.addMessage(&Message{Version: version, Key: []byte{1}, Value: []byte{2, 3}})
	ms.addMessage(&Message{Version: version, Value: []byte{4}})
	ms.Messages[0].Offset = 7
	ms.Messages[1].Offset = 8
	return ms
}

func verifHarness_C10_messageSetMutation() {
	vConfig("hang", 1)
	version := int8(vChoose("msgversion", 2))
	raw, err := encode(vSampleMessageSet(version), nil)
	vAssume(err == nil)
	w := 4
	if vTier() > 0 {
		w = 8
	}
	pos := vChoose("pos", len(raw))
	for i := 0; i < w && pos+i < len(raw); i++ {
		raw[pos+i] = vByte("m")
	}
	vAllocLimit(vMax(len(raw), 16))
	var out MessageSet
	before := vCRCCount()
	err = decode(raw, &out)
	if err == nil {
		n := vCRCCount()
		// every message handed out had its IEEE CRC checked over magic..end of message
		vAssert(n-before == len(out.Messages) || out.PartialTrailingMessage || out.OverflowMessage, "crc-per-message")
		for k := before; k < n; k++ {
			poly, _ := vCRCInfo(k)
			vAssert(poly == 0xedb88320, "crc-ieee")
		}
		vCover("accepted", true)
	}
	vReach()
}
