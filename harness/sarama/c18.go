//go:build verif

package sarama

type vCountSend struct {
	id     int
	calls  map[*ProducerMessage]int
	order  *[]int
	panics bool
	total  int
}

func (c *vCountSend) OnSend(m *ProducerMessage) {
	c.calls[m]++
	c.total++
	*c.order = append(*c.order, c.id)
	if c.panics {
		panic("interceptor failure")
	}
}

type vCountConsume struct {
	id     int
	calls  map[*ConsumerMessage]int
	order  *[]int
	panics bool
}

func (c *vCountConsume) OnConsume(m *ConsumerMessage) {
	c.calls[m]++
	*c.order = append(*c.order, c.id)
	if c.panics {
		panic("interceptor failure")
	}
}

// C18 (producer): each interceptor runs exactly once per submitted message, in configuration
// order, never for retried messages or internal markers; a panicking one is contained.
func vC18Producer(mode int) {
	c := vProdScenario(mode)
	var order []int
	chainLen := 1 + vChoose("chain", 2)
	var chain []*vCountSend
	for i := 0; i < chainLen; i++ {
		ic := &vCountSend{id: i, calls: map[*ProducerMessage]int{}, order: &order}
		chain = append(chain, ic)
		c.interceptors = append(c.interceptors, ic)
	}
	chain[0].panics = vChoose("firstPanics", 2) == 1
	r := vRunProducer(c)
	for _, ic := range chain {
		for _, m := range r.msgs {
			vAssert(ic.calls[m] >= 1, "interceptor-applied-to-every-message")
			vAssert(ic.calls[m] <= 1, "interceptor-not-applied-again-on-retry")
		}
		vAssert(ic.total == len(r.msgs), "interceptor-not-applied-to-internal-markers")
	}
	for i := range order {
		vAssert(order[i] == i%chainLen, "configuration-order")
	}
	r.assertC01()
	vReach()
}

func verifHarness_C18_producerFaults()    { vC18Producer(0) }
func verifHarness_C18_producerSchedules_T() { vC18Producer(1) }

// C18 (consumer): each consumer interceptor runs exactly once per delivered message whatever
// the reader's pace (including the slow-reader path of the response feeder).
func vC18Consumer(mode int) {
	c := vConsScenario(mode)
	var order []int
	chainLen := 1 + vChoose("chain", 2)
	var chain []*vCountConsume
	for i := 0; i < chainLen; i++ {
		ic := &vCountConsume{id: i, calls: map[*ConsumerMessage]int{}, order: &order}
		chain = append(chain, ic)
		c.interceptors = append(c.interceptors, ic)
	}
	chain[0].panics = vChoose("firstPanics", 2) == 1
	r := vRunConsumer(c)
	for _, ic := range chain {
		for _, m := range r.msgs {
			vAssert(ic.calls[m] >= 1, "interceptor-applied-before-delivery")
			vAssert(ic.calls[m] <= 1, "interceptor-applied-once")
		}
	}
	r.assertC03(c.start, true)
	vReach()
}

func verifHarness_C18_consumerFaults()    { vC18Consumer(0) }
func verifHarness_C18_consumerSchedules_T() { vC18Consumer(1) }
