//go:build verif

package sarama

type vCountSend struct {
	id     int
	calls  map[*ProducerMessage]int
	order  *[]int
	panics bool
	total  int
}

func (c *vCountSend) OnSend(m *ProducerMessage) {
	c.calls[m]++
	c.total++
	*c.order = append(*c.order, c.id)
	if c.panics {
		panic("interceptor failure")
	}
}

type vCountConsume struct {
	id     int
	calls  map[*ConsumerMessage]int
	order  *[]int
	panics bool
}

func (c *vCountConsume) OnConsume(m *ConsumerMessage) {
	c.calls[m]++
	*c.order = append(*c.order, c.id)
	if c.panics {
		panic("interceptor failure")
	}
}

// C18 (producer): each interceptor runs exactly once per submitted message, in configuration
// order, never for retried messages or internal markers; a panicking one is contained.
func vC18Producer(mode int) {
	c := vProdScenarioSized(mode, vTier() > 0 && mode == 0) // the schedule variant keeps the small sizes (x chain x panic choices)
	var order []int
	chainLen := 1 + vChoose("chain", 2)
	var chain []*vCountSend
	for i := 0; i < chainLen; i++ {
		ic := &vCountSend{id: i, calls: map[*ProducerMessage]int{}, order: &order}
		chain = append(chain, ic)
		c.interceptors = append(c.interceptors, ic)
	}
	chain[0].panics = vChoose("firstPanics", 2) == 1
	r := vRunProducer(c)
	for _, ic := range chain {
		for _, m := range r.msgs {
			vAssert(ic.calls[m] >= 1, "interceptor-applied-to-every-message")
			vAssert(ic.calls[m] <= 1, "interceptor-not-applied-again-on-retry")
		}
		vAssert(ic.total == len(r.msgs), "interceptor-not-applied-to-internal-markers")
	}
	for i := range order {
		vAssert(order[i] == i%chainLen, "configuration-order")
	}
	r.assertC01()
	vReach()
}

// an interceptor that makes the message bigger
type vGrowSend struct{ by int }

func (g *vGrowSend) OnSend(m *ProducerMessage) {
	old, _ := m.Value.Encode()
	m.Value = ByteEncoder(append(append([]byte{}, old...), make([]byte, g.by)...))
}

// C18 (producer, messages the pipeline refuses): a submitted message that the dispatcher
// rejects (too large, or record headers on a version that has none) was still shown to every
// interceptor exactly once, in order; and the limits apply to the message as the interceptors
// left it (one grown past MaxMessageBytes is rejected, not produced).
func verifHarness_C18_producerRejected() {
	c := vProdCfg{n: 2, parts: 1, brokers: 1, retryMax: 1, delay: 0, maxMessageBytes: 100}
	var order []int
	chainLen := 1 + vChoose("chain", 2)
	var chain []*vCountSend
	for i := 0; i < chainLen; i++ {
		ic := &vCountSend{id: i, calls: map[*ProducerMessage]int{}, order: &order}
		chain = append(chain, ic)
		c.interceptors = append(c.interceptors, ic)
	}
	chain[0].panics = vChoose("firstPanics", 2) == 1
	bad := vChoose("refusedMessage", 2) // which of the two messages is the one to be refused
	why := vChoose("refusal", 3)
	switch why {
	case 0: // submitted too large
		c.valueLen = []int{1, 1}
		c.valueLen[bad] = 200
		c.version = V0_11_0_0
	case 1: // headers before 0.11
		c.headersOn = bad + 1
		c.version = V0_10_2_0
	case 2: // grown past the limit by the last interceptor of the chain
		c.valueLen = []int{1, 1}
		c.interceptors = append(c.interceptors, &vGrowSend{by: 200})
		c.version = V0_11_0_0
	}
	c.class = vSprintf("rejected,why=%d,bad=%d", why, bad)
	r := vRunProducer(c)
	for _, ic := range chain {
		for _, m := range r.msgs {
			vAssert(ic.calls[m] == 1, "interceptor-applied-once-to-every-submitted-message")
		}
		vAssert(ic.total == len(r.msgs), "interceptor-applied-to-nothing-else")
	}
	for i := range order {
		vAssert(order[i] == i%chainLen, "configuration-order")
	}
	for i, m := range r.msgs {
		refused := i == bad || why == 2
		for _, e := range r.events {
			if e.msg != m {
				continue
			}
			if refused {
				vAssert(e.err != nil, "refused-message-reported-as-error")
				if why == 1 {
					_, isConf := e.err.(ConfigurationError)
					vAssert(isConf, "headers-on-old-version-is-a-configuration-error")
				} else {
					vAssert(e.err == ErrMessageSizeTooLarge, "limit-applies-to-the-message-as-intercepted")
				}
			} else {
				vAssert(e.err == nil, "other-message-succeeds")
			}
		}
		if refused {
			for _, le := range r.cl.logs[0] {
				vAssert(le.id != byte(i+1), "refused-message-not-written")
			}
		}
	}
	r.assertC01()
	vReach()
}

func verifHarness_C18_producerFaults()    { vC18Producer(0) }
func verifHarness_C18_producerSchedules_T() { vC18Producer(1) }

// C18 (consumer): each consumer interceptor runs exactly once per delivered message whatever
// the reader's pace (including the slow-reader path of the response feeder).
func vC18Consumer(mode int) {
	c := vConsScenarioSized(mode, vTier() > 0 && mode == 0) // the schedule variant keeps the small sizes (x chain x panic choices)
	var order []int
	chainLen := 1 + vChoose("chain", 2)
	var chain []*vCountConsume
	for i := 0; i < chainLen; i++ {
		ic := &vCountConsume{id: i, calls: map[*ConsumerMessage]int{}, order: &order}
		chain = append(chain, ic)
		c.interceptors = append(c.interceptors, ic)
	}
	chain[0].panics = vChoose("firstPanics", 2) == 1
	r := vRunConsumer(c)
	for _, ic := range chain {
		for _, m := range r.msgs {
			vAssert(ic.calls[m] >= 1, "interceptor-applied-before-delivery")
			vAssert(ic.calls[m] <= 1, "interceptor-applied-once")
		}
	}
	r.assertC03(c.start, true)
	vReach()
}

func verifHarness_C18_consumerFaults()    { vC18Consumer(0) }
func verifHarness_C18_consumerSchedules_T() { vC18Consumer(1) }
