//go:build verif

package sarama

import "context"

// ---------- simulated group coordinator ----------

type vCoordReq struct {
	kind       string // join, sync, heartbeat, leave, commit, fetch
	memberID   string
	generation int32
}

type vCoord struct {
	log         []vCoordReq
	issuedID    string // member id most recently issued
	issuedGen   int32
	idSeq       int
	faults      int
	calls       []string // life-cycle call log (handler + coordinator events)
	committed   map[int32]int64
	commits     []map[int32]int64
	fenced      bool // the last verdict to this member was a fencing one
	parts       []int32
	assign      []int32
	leader      bool
	hbVerdicts  int
	hbArmed     bool
	started     chan struct{}
	late        bool
}

const (
	vgOK = iota
	vgRebalance
	vgUnknownMember
	vgIllegalGeneration
	vgNotCoordinator
	vgTransport
	vgKinds
)

func (co *vCoord) verdict(what string) (KError, bool) {
	if co.faults <= 0 {
		return ErrNoError, false
	}
	k := vChoose(what+"Verdict", vgKinds)
	if k != vgOK {
		co.faults--
	}
	switch k {
	case vgRebalance:
		return ErrRebalanceInProgress, false
	case vgUnknownMember:
		co.fenced = true
		return ErrUnknownMemberId, false
	case vgIllegalGeneration:
		co.fenced = true
		return ErrIllegalGeneration, false
	case vgNotCoordinator:
		return ErrNotCoordinatorForConsumer, false
	case vgTransport:
		return 0, true
	}
	return ErrNoError, false
}

func (co *vCoord) join(b *Broker, req *JoinGroupRequest) (*JoinGroupResponse, error) {
	co.log = append(co.log, vCoordReq{kind: "join", memberID: req.MemberId})
	// identity rule: the member presents the id last issued, or none after a fencing verdict / at first
	if co.fenced || co.issuedID == "" {
		vAssert(req.MemberId == "", "rejoin-with-fresh-identity-after-fencing")
	} else {
		vAssert(req.MemberId == co.issuedID, "join-carries-issued-member-id")
	}
	kerr, transport := co.verdict("join")
	if transport {
		return nil, errVConn
	}
	if kerr != ErrNoError {
		return &JoinGroupResponse{Err: kerr}, nil
	}
	co.fenced = false
	if req.MemberId == "" {
		co.idSeq++
		co.issuedID = vSprintf("member-%d", co.idSeq)
	}
	co.issuedGen++
	resp := &JoinGroupResponse{GenerationId: co.issuedGen, MemberId: co.issuedID, LeaderId: "someone-else", GroupProtocol: "range"}
	if co.leader {
		resp.LeaderId = co.issuedID
		meta, err := encode(&ConsumerGroupMemberMetadata{Topics: []string{"t"}}, nil)
		vAssume(err == nil)
		resp.Members = map[string][]byte{co.issuedID: meta}
	}
	return resp, nil
}

func (co *vCoord) sync(b *Broker, req *SyncGroupRequest) (*SyncGroupResponse, error) {
	co.log = append(co.log, vCoordReq{kind: "sync", memberID: req.MemberId, generation: req.GenerationId})
	vAssert(req.MemberId == co.issuedID && req.GenerationId == co.issuedGen, "sync-carries-issued-identity-and-generation")
	if co.leader {
		vAssert(len(req.GroupAssignments) == 1, "leader-sends-the-plan")
	}
	kerr, transport := co.verdict("sync")
	if transport {
		return nil, errVConn
	}
	if kerr != ErrNoError {
		return &SyncGroupResponse{Err: kerr}, nil
	}
	resp := &SyncGroupResponse{}
	if len(co.assign) > 0 {
		a, err := encode(&ConsumerGroupMemberAssignment{Topics: map[string][]int32{"t": co.assign}}, nil)
		vAssume(err == nil)
		resp.MemberAssignment = a
	}
	return resp, nil
}

func (co *vCoord) heartbeat(b *Broker, req *HeartbeatRequest) (*HeartbeatResponse, error) {
	co.log = append(co.log, vCoordReq{kind: "heartbeat", memberID: req.MemberId, generation: req.GenerationId})
	vAssert(req.MemberId == co.issuedID && req.GenerationId == co.issuedGen, "heartbeat-carries-issued-identity-and-generation")
	vYield()
	if co.hbVerdicts > 0 && co.hbArmed {
		co.hbVerdicts--
		switch vChoose("heartbeatVerdict", 3) {
		case 0:
			return &HeartbeatResponse{Err: ErrRebalanceInProgress}, nil
		case 1:
			co.fenced = true
			return &HeartbeatResponse{Err: ErrUnknownMemberId}, nil
		case 2:
			co.fenced = true
			return &HeartbeatResponse{Err: ErrIllegalGeneration}, nil
		}
	}
	return &HeartbeatResponse{}, nil
}

func (co *vCoord) leave(b *Broker, req *LeaveGroupRequest) (*LeaveGroupResponse, error) {
	co.log = append(co.log, vCoordReq{kind: "leave", memberID: req.MemberId})
	vAssert(req.MemberId == co.issuedID, "leave-carries-issued-member-id")
	co.calls = append(co.calls, "leave")
	return &LeaveGroupResponse{}, nil
}

func (co *vCoord) fetchOffset(b *Broker, req *OffsetFetchRequest) (*OffsetFetchResponse, error) {
	resp := &OffsetFetchResponse{Blocks: map[string]map[int32]*OffsetFetchResponseBlock{"t": {}}}
	for _, p := range co.parts {
		off, ok := co.committed[p]
		if !ok {
			off = -1
		}
		resp.Blocks["t"][p] = &OffsetFetchResponseBlock{Offset: off}
	}
	return resp, nil
}

func (co *vCoord) commitOffset(b *Broker, req *OffsetCommitRequest) (*OffsetCommitResponse, error) {
	co.log = append(co.log, vCoordReq{kind: "commit", memberID: req.ConsumerID, generation: req.ConsumerGroupGeneration})
	vAssert(req.ConsumerID == co.issuedID && req.ConsumerGroupGeneration == co.issuedGen, "commit-carries-issued-identity-and-generation")
	co.calls = append(co.calls, "commit")
	resp := &OffsetCommitResponse{Errors: map[string]map[int32]KError{"t": {}}}
	snap := map[int32]int64{}
	for p, blk := range req.blocks["t"] {
		co.committed[p] = blk.offset
		snap[p] = blk.offset
		resp.Errors["t"][p] = ErrNoError
	}
	co.commits = append(co.commits, snap)
	return resp, nil
}

// ---------- fake Consumer / PartitionConsumer (consumer_group.go only uses the interfaces) ----------

type vPC struct {
	topic     string
	partition int32
	start     int64
	messages  chan *ConsumerMessage
	errors    chan *ConsumerError
	closed    bool
}

func (p *vPC) AsyncClose() {
	if !p.closed {
		p.closed = true
		close(p.messages)
		close(p.errors)
	}
}
func (p *vPC) Close() error                          { p.AsyncClose(); return nil }
func (p *vPC) Messages() <-chan *ConsumerMessage      { return p.messages }
func (p *vPC) Errors() <-chan *ConsumerError          { return p.errors }
func (p *vPC) HighWaterMarkOffset() int64             { return 0 }

type vFakeConsumer struct {
	started    []*vPC
	outOfRange map[int64]bool
	transient  map[int64]int // ConsumePartition at this offset fails this many times with a passing error
	closed     bool
}

func (c *vFakeConsumer) Topics() ([]string, error)                  { return []string{"t"}, nil }
func (c *vFakeConsumer) Partitions(t string) ([]int32, error)       { return []int32{0, 1}, nil }
func (c *vFakeConsumer) HighWaterMarks() map[string]map[int32]int64 { return nil }
func (c *vFakeConsumer) Close() error                               { c.closed = true; return nil }
func (c *vFakeConsumer) ConsumePartition(topic string, partition int32, offset int64) (PartitionConsumer, error) {
	if c.outOfRange[offset] {
		return nil, ErrOffsetOutOfRange
	}
	if c.transient[offset] > 0 {
		c.transient[offset]--
		return nil, ErrNotLeaderForPartition // e.g. a leader election while the offset is validated
	}
	pc := &vPC{topic: topic, partition: partition, start: offset, messages: make(chan *ConsumerMessage, 4), errors: make(chan *ConsumerError, 1)}
	first := offset
	if first < 0 {
		first = 100 // OffsetOldest/OffsetNewest resolve to a real position of the (simulated) log
	}
	for i := int64(0); i < 2; i++ {
		pc.messages <- &ConsumerMessage{Topic: topic, Partition: partition, Offset: first + i, Value: []byte{byte(first + i)}}
	}
	c.started = append(c.started, pc)
	return pc, nil
}

// ---------- scripted handler ----------

type vHandler struct {
	co        *vCoord
	behaviour int // 0 returns at once, 1 blocks until the claim is closed, 2 marks what it reads then blocks
	claims    map[int32]int
	initial   map[int32]int64
	active    int
	marked    map[int32]int64
}

func (h *vHandler) Setup(s ConsumerGroupSession) error {
	h.co.calls = append(h.co.calls, "setup")
	return nil
}
func (h *vHandler) Cleanup(s ConsumerGroupSession) error {
	vAssert(h.active == 0, "cleanup-only-after-every-consume-claim-returned")
	h.co.calls = append(h.co.calls, "cleanup")
	return nil
}
func (h *vHandler) ConsumeClaim(s ConsumerGroupSession, c ConsumerGroupClaim) error {
	h.active++
	h.claims[c.Partition()]++
	h.initial[c.Partition()] = c.InitialOffset()
	h.co.calls = append(h.co.calls, "claim")
	if h.co.late {
		// the session-ending event happens only once a claim is being consumed
		h.co.hbArmed = true
		select {
		case h.co.started <- struct{}{}:
		default:
		}
	}
	switch h.behaviour {
	case 1:
		for range c.Messages() {
		}
	case 2:
		for m := range c.Messages() {
			s.MarkMessage(m, "")
			h.marked[m.Partition] = m.Offset + 1
		}
	}
	h.active--
	return nil
}

// C07 P-sys: one Consume call of the real consumer group (newSession, join/sync, heartbeat
// loop, partition-number watcher, offset manager, claim goroutines) against the simulated
// coordinator, a scripted handler and a session-ending event.
func verifHarness_C07_session() { vC07Session(false) }

// the same scenario with fewer configurations and every schedule within one delay
func verifHarness_C07_sessionSchedules() { vC07Session(true) }

func vC07Session(schedules bool) {
	// canonical schedule over every configuration (thorough: two coordinator faults); every
	// schedule within one delay over a reduced configuration set
	if schedules {
		vConfig("delay", 1)
	} else {
		vConfig("delay", 0)
	}
	vConfig("ticks", 3)
	conf := NewConfig()
	conf.Version = V0_10_2_0
	conf.Consumer.Return.Errors = true
	conf.Consumer.Group.Rebalance.Retry.Max = 2
	conf.Consumer.Group.Rebalance.Retry.Backoff = 0
	conf.Consumer.Offsets.AutoCommit.Enable = true
	conf.Consumer.Offsets.Initial = OffsetOldest
	conf.Metadata.Retry.Max = 1
	conf.Metadata.Retry.Backoff = 0
	co := &vCoord{committed: map[int32]int64{}, faults: 1 + vTier(), leader: vChoose("leader", 2) == 1}
	if schedules {
		// quick: a follower and no coordinator fault; thorough: leader or follower, one fault
		co.faults = vTier()
		if vTier() == 0 {
			vAssume(!co.leader)
		}
	}
	switch vChoose("assignment", 3) {
	case 1:
		co.assign = []int32{0}
	case 2:
		co.assign = []int32{0, 1}
	}
	co.parts = []int32{0, 1}
	committed0 := vChoose("committed0", 4) // none, a valid offset, an out-of-range offset, a valid offset + a passing error when the claim is opened
	if schedules {
		vAssume(committed0 == 1 && len(co.assign) <= 1)
	}
	fc := &vFakeConsumer{outOfRange: map[int64]bool{}, transient: map[int64]int{}}
	switch committed0 {
	case 3:
		co.committed[0] = 40
		fc.transient[40] = 1
	case 1:
		co.committed[0] = 40
	case 2:
		co.committed[0] = 99
		fc.outOfRange[99] = true
	}
	cl := vNewCluster(conf, 1, 2, 0)
	client := &vFakeClient{conf: conf, cl: cl}
	vOverride("(*Broker).JoinGroup", co.join)
	vOverride("(*Broker).SyncGroup", co.sync)
	vOverride("(*Broker).Heartbeat", co.heartbeat)
	vOverride("(*Broker).LeaveGroup", co.leave)
	vOverride("(*Broker).FetchOffset", co.fetchOffset)
	vOverride("(*Broker).CommitOffset", co.commitOffset)
	vOverride("(*Broker).Close", func(b *Broker) error { return nil })
	g := &consumerGroup{client: client, consumer: fc, config: conf, groupID: "g",
		errors: make(chan error, 8), closed: make(chan none)}
	h := &vHandler{co: co, behaviour: vChoose("handler", 3), claims: map[int32]int{}, initial: map[int32]int64{}, marked: map[int32]int64{}}
	ctx, cancel := context.WithCancel(context.Background())
	endCause := vChoose("endCause", 3) // 0 context cancelled, 1 coordinator announces rebalance/fences via heartbeat, 2 group closed
	if endCause == 1 {
		co.hbVerdicts = 1
	}
	co.started = make(chan struct{}, 4)
	// the end of the session is caused either right away or once a claim is being consumed
	co.late = len(co.assign) > 0 && vChoose("endMoment", 2) == 1
	co.hbArmed = !co.late
	vClass(vSprintf("leader=%v,assign=%d,handler=%d,end=%d,late=%v,committed0=%d", co.leader, len(co.assign), h.behaviour, endCause, co.late, committed0))
	done := make(chan error, 1)
	go func() {
		done <- g.Consume(ctx, []string{"t"}, h)
	}()
	if co.late {
		select {
		case <-co.started:
		case err := <-done: // the session could not be established at all
			done <- err
		}
	}
	switch endCause {
	case 0:
		cancel()
	case 2:
		go func() { _ = g.Close() }()
	}
	err := <-done
	co.calls = append(co.calls, "return")
	cancel()
	_ = g.Close()

	joined := false
	for _, c := range co.calls {
		if c == "setup" {
			joined = true
		}
	}
	if !joined {
		vAssert(err != nil || len(co.calls) == 2, "no-session-means-error-or-nothing")
		vCover("join-failed", true)
		vReach()
		return
	}
	// life-cycle order: setup, claims..., cleanup, final commit, return
	nSetup, nCleanup, iSetup, iCleanup, iReturn, lastClaim := 0, 0, -1, -1, -1, -1
	for i, c := range co.calls {
		switch c {
		case "setup":
			nSetup++
			iSetup = i
		case "cleanup":
			nCleanup++
			iCleanup = i
		case "claim":
			lastClaim = i
		case "return":
			if iReturn < 0 {
				iReturn = i
			}
		}
	}
	vAssert(nSetup == 1 && nCleanup == 1, "setup-once-cleanup-once")
	vAssert(iSetup < iCleanup && iCleanup < iReturn, "setup-before-cleanup-before-return")
	vAssert(lastClaim < iCleanup, "claims-start-before-cleanup")
	for _, p := range co.assign {
		vAssert(h.claims[p] <= 1, "at-most-one-consume-claim-per-partition")
	}
	for p, n := range h.claims {
		found := false
		for _, q := range co.assign {
			if q == p {
				found = true
			}
		}
		vAssert(found && n >= 1, "claims-only-for-assigned-partitions")
	}
	// each claim starts at the committed offset, or the initial position if none / out of range
	for p := range h.claims {
		want := OffsetOldest
		if p == 0 && (committed0 == 1 || committed0 == 3) {
			want = 40 // a passing error is no licence to jump to the initial position
		}
		vAssert(h.initial[p] == want, "claim-starts-at-committed-offset-or-initial-position")
	}
	// with auto-commit, what was marked is committed before Consume returns
	for p, off := range h.marked {
		vAssert(co.committed[p] == off, "marked-offsets-committed-before-return")
	}
	vCover("claimed", lastClaim >= 0)
	vReach()
}
