//go:build verif

package sarama

// vAdminClient: a Client whose controller can move; Controller() answers from a cache that
// only RefreshController() updates.
type vAdminClient struct {
	vFakeClient
	cached    int
	trueCtl   int
	refreshes int
	leaders   map[int32]int
}

func (c *vAdminClient) Controller() (*Broker, error) { return c.cl.brokers[c.cached], nil }
func (c *vAdminClient) RefreshController() (*Broker, error) {
	c.refreshes++
	c.cached = c.trueCtl
	return c.cl.brokers[c.cached], nil
}
func (c *vAdminClient) Leader(topic string, p int32) (*Broker, error) {
	return c.cl.brokers[c.leaders[p]], nil
}
func (c *vAdminClient) Coordinator(g string) (*Broker, error) {
	if g == "g1" {
		return c.cl.brokers[1], nil
	}
	return c.cl.brokers[0], nil
}

type vAttempt struct {
	broker  int32
	wasCtl  bool
	code    KError
	connErr bool
	known   int // the controller the client's cache named when the attempt was made
}

type vAdminSim struct {
	client   *vAdminClient
	attempts  []vAttempt
	moves     int
	menuCodes bool
}

// answer decides what broker b says to a controller-bound request.
func (s *vAdminSim) answer(b *Broker) (KError, error) {
	// the controller may move before this attempt is processed
	if s.moves > 0 && vChoose("controllerMoves", 2) == 1 {
		s.moves--
		s.client.trueCtl = 1 - s.client.trueCtl
	}
	a := vAttempt{broker: b.id, wasCtl: int(b.id) == s.client.trueCtl, known: s.client.cached}
	if !a.wasCtl {
		a.code = ErrNotController
	} else {
		switch vChoose("verdict", 3) {
		case 0:
			a.code = ErrNoError
		case 1:
			if s.menuCodes {
				// operations that render the code as text: a menu instead of a free code
				a.code = []KError{ErrUnknown, ErrInvalidTopic, ErrInvalidPartitions}[vChoose("code", 3)]
			} else {
				a.code = KError(vInt16("code"))
				vAssume(a.code != ErrNoError && a.code != ErrNotController)
			}
		case 2:
			a.connErr = true
		}
	}
	s.attempts = append(s.attempts, a)
	if a.connErr {
		return 0, errVConn
	}
	return a.code, nil
}

func vNewAdmin() (*clusterAdmin, *vAdminSim) {
	conf := NewConfig()
	conf.Admin.Retry.Max = vInt("retryMax")
	vAssume(conf.Admin.Retry.Max >= 0 && conf.Admin.Retry.Max <= 4)
	conf.Admin.Retry.Backoff = 0
	switch vChoose("version", 3) {
	case 0:
		conf.Version = V0_10_2_0
	case 1:
		conf.Version = V0_11_0_0
	case 2:
		conf.Version = V1_0_0_0
	}
	cl := vNewCluster(conf, 2, 2, 0)
	client := &vAdminClient{vFakeClient: vFakeClient{conf: conf, cl: cl}, leaders: map[int32]int{}}
	client.trueCtl = vChoose("trueController", 2)
	client.cached = vChoose("cachedController", 2)
	sim := &vAdminSim{client: client, moves: 2}
	return &clusterAdmin{client: client, conf: conf}, sim
}

// the common contract of controller-bound operations, given the attempts the brokers saw
func (s *vAdminSim) assertControllerOp(err error, max int, code func(error) (KError, bool)) {
	n := len(s.attempts)
	vAssert(n >= 1, "at-least-one-attempt")
	if n == 0 {
		return
	}
	vAssert(n <= max || max == 0, "attempts-within-budget")
	for i, a := range s.attempts {
		// every attempt, retries included, is addressed to the controller the client knows at
		// that moment (i.e. the one learnt by the refresh that preceded the retry)
		vAssert(int(a.broker) == a.known, "attempt-addressed-to-the-currently-known-controller")
		if i+1 < n {
			vAssert(!a.connErr && a.code == ErrNotController, "only-not-controller-is-retried")
		}
	}
	last := s.attempts[n-1]
	switch {
	case last.connErr:
		vAssert(err != nil, "transport-error-reported")
	case last.code == ErrNoError:
		vAssert(err == nil, "acknowledged-by-controller-means-success")
		vAssert(last.wasCtl, "success-only-from-the-current-controller")
	case last.code == ErrNotController:
		vAssert(err != nil, "not-controller-reported-when-budget-exhausted")
		vAssert(n >= max, "not-controller-retried-while-budget-remains")
	default:
		vAssert(err != nil, "error-verdict-reported")
		if c, ok := code(err); ok {
			vAssert(c == last.code, "error-verdict-unchanged")
		}
	}
	// every retry went to the controller known after a refresh
	for i := 1; i < n; i++ {
		vAssert(s.client.refreshes >= i, "controller-refreshed-before-retry")
	}
	if err == nil {
		vAssert(last.code == ErrNoError && !last.connErr, "success-only-if-broker-reported-none")
	}
	vCover("retried", n >= 2)
	vCover("succeeded-after-move", n >= 2 && err == nil)
}

func vTopicErrCode(err error) (KError, bool) {
	switch e := err.(type) {
	case *TopicError:
		return e.Err, true
	case *TopicPartitionError:
		return e.Err, true
	case KError:
		return e, true
	}
	return 0, false
}

func verifHarness_C19_createTopic() {
	ca, sim := vNewAdmin()
	var sent []*CreateTopicsRequest
	vOverride("(*Broker).CreateTopics", func(b *Broker, req *CreateTopicsRequest) (*CreateTopicsResponse, error) {
		sent = append(sent, req)
		code, err := sim.answer(b)
		if err != nil {
			return nil, err
		}
		if vChoose("entryMissing", 2) == 1 && code == ErrNoError {
			sim.attempts[len(sim.attempts)-1].connErr = true // an incomplete response is an error, not a verdict
			return &CreateTopicsResponse{TopicErrors: map[string]*TopicError{}}, nil
		}
		return &CreateTopicsResponse{TopicErrors: map[string]*TopicError{"t": {Err: code}}}, nil
	})
	err := ca.CreateTopic("t", &TopicDetail{NumPartitions: 1, ReplicationFactor: 1}, false)
	sim.assertControllerOp(err, ca.conf.Admin.Retry.Max, vTopicErrCode)
	for _, r := range sent {
		want := int16(0)
		if ca.conf.Version.IsAtLeast(V0_11_0_0) {
			want = 1
		}
		if ca.conf.Version.IsAtLeast(V1_0_0_0) {
			want = 2
		}
		vAssert(r.Version == want, "request-version-follows-config")
		vAssert(len(r.TopicDetails) == 1 && r.TopicDetails["t"] != nil, "request-names-the-topic")
	}
	vReach()
}

func verifHarness_C19_deleteTopic() {
	ca, sim := vNewAdmin()
	vOverride("(*Broker).DeleteTopics", func(b *Broker, req *DeleteTopicsRequest) (*DeleteTopicsResponse, error) {
		code, err := sim.answer(b)
		if err != nil {
			return nil, err
		}
		return &DeleteTopicsResponse{TopicErrorCodes: map[string]KError{"t": code}}, nil
	})
	err := ca.DeleteTopic("t")
	sim.assertControllerOp(err, ca.conf.Admin.Retry.Max, vTopicErrCode)
	vReach()
}

func verifHarness_C19_createPartitions() {
	ca, sim := vNewAdmin()
	vOverride("(*Broker).CreatePartitions", func(b *Broker, req *CreatePartitionsRequest) (*CreatePartitionsResponse, error) {
		code, err := sim.answer(b)
		if err != nil {
			return nil, err
		}
		return &CreatePartitionsResponse{TopicPartitionErrors: map[string]*TopicPartitionError{"t": {Err: code}}}, nil
	})
	err := ca.CreatePartitions("t", 3, nil, false)
	sim.assertControllerOp(err, ca.conf.Admin.Retry.Max, vTopicErrCode)
	vReach()
}

func verifHarness_C19_alterReassignments() {
	ca, sim := vNewAdmin()
	sim.menuCodes = true
	vOverride("(*Broker).AlterPartitionReassignments", func(b *Broker, req *AlterPartitionReassignmentsRequest) (*AlterPartitionReassignmentsResponse, error) {
		code, err := sim.answer(b)
		if err != nil {
			return nil, err
		}
		rsp := &AlterPartitionReassignmentsResponse{}
		if vChoose("errorPlacement", 2) == 0 {
			rsp.ErrorCode = code
		} else {
			rsp.AddError("t", 0, code, nil)
		}
		return rsp, nil
	})
	err := ca.AlterPartitionReassignments("t", [][]int32{{0, 1}})
	sim.assertControllerOp(err, ca.conf.Admin.Retry.Max, func(error) (KError, bool) { return 0, false })
	vReach()
}

// Leader-bound: DeleteRecords sends each partition to its leader, one request per broker, and
// any broker or item error fails the call.
func verifHarness_C19_deleteRecords() {
	ca, sim := vNewAdmin()
	sim.moves = 0
	cl := sim.client
	nParts := 1 + vChoose("partitions", 3)
	offsets := map[int32]int64{}
	for p := 0; p < nParts; p++ {
		cl.leaders[int32(p)] = vChoose("leader", 2)
		offsets[int32(p)] = int64(10 + p)
	}
	type call struct {
		broker int32
		parts  map[int32]int64
	}
	var calls []call
	anyErr := false
	vOverride("(*Broker).DeleteRecords", func(b *Broker, req *DeleteRecordsRequest) (*DeleteRecordsResponse, error) {
		c := call{broker: b.id, parts: map[int32]int64{}}
		rsp := &DeleteRecordsResponse{Topics: map[string]*DeleteRecordsResponseTopic{"t": {Partitions: map[int32]*DeleteRecordsResponsePartition{}}}}
		for p, off := range req.Topics["t"].PartitionOffsets {
			c.parts[p] = off
			code := ErrNoError
			if vChoose("itemError", 2) == 1 {
				code = []KError{ErrUnknown, ErrOffsetOutOfRange}[vChoose("code", 2)]
				anyErr = true
			}
			rsp.Topics["t"].Partitions[p] = &DeleteRecordsResponsePartition{Err: code}
		}
		calls = append(calls, c)
		if vChoose("brokerFails", 2) == 1 {
			anyErr = true
			return nil, errVConn
		}
		return rsp, nil
	})
	err := ca.DeleteRecords("t", offsets)
	seen := map[int32]bool{}
	brokersUsed := map[int32]int{}
	for _, c := range calls {
		brokersUsed[c.broker]++
		for p, off := range c.parts {
			vAssert(cl.leaders[p] == int(c.broker), "partition-sent-to-its-leader")
			vAssert(off == offsets[p], "offset-preserved")
			vAssert(!seen[p], "partition-sent-once")
			seen[p] = true
		}
	}
	for b := range brokersUsed {
		vAssert(brokersUsed[b] == 1, "one-request-per-broker")
	}
	vAssert(len(seen) == nParts, "every-partition-sent")
	if anyErr {
		vAssert(err != nil, "any-broker-or-item-error-fails-the-call")
	} else {
		vAssert(err == nil, "no-error-means-success")
	}
	vReach()
}

// Coordinator-bound: DeleteConsumerGroup / DescribeConsumerGroups go to the group's coordinator.
func verifHarness_C19_groups() {
	ca, sim := vNewAdmin()
	sim.moves = 0
	var asked []int32
	code := KError(vInt16("code"))
	missing := vChoose("entryMissing", 2) == 1
	vOverride("(*Broker).DeleteGroups", func(b *Broker, req *DeleteGroupsRequest) (*DeleteGroupsResponse, error) {
		asked = append(asked, b.id)
		if missing {
			return &DeleteGroupsResponse{GroupErrorCodes: map[string]KError{}}, nil
		}
		return &DeleteGroupsResponse{GroupErrorCodes: map[string]KError{"g1": code}}, nil
	})
	err := ca.DeleteConsumerGroup("g1")
	vAssert(len(asked) == 1 && asked[0] == 1, "sent-to-the-coordinator")
	if missing {
		vAssert(err == ErrIncompleteResponse, "missing-entry-is-an-error")
	} else if code == ErrNoError {
		vAssert(err == nil, "success")
	} else {
		vAssert(err == code, "verdict-unchanged")
	}
	// describe two groups on two coordinators: one request per coordinator
	var dcalls [][]string
	var dbrokers []int32
	vOverride("(*Broker).DescribeGroups", func(b *Broker, req *DescribeGroupsRequest) (*DescribeGroupsResponse, error) {
		dcalls = append(dcalls, req.Groups)
		dbrokers = append(dbrokers, b.id)
		rsp := &DescribeGroupsResponse{}
		for _, g := range req.Groups {
			rsp.Groups = append(rsp.Groups, &GroupDescription{GroupId: g})
		}
		return rsp, nil
	})
	res, err := ca.DescribeConsumerGroups([]string{"g0", "g1", "g2"})
	vAssert(err == nil && len(res) == 3, "all-groups-described")
	vAssert(len(dcalls) == 2, "one-request-per-coordinator")
	for i, gs := range dcalls {
		for _, g := range gs {
			want := int32(0)
			if g == "g1" {
				want = 1
			}
			vAssert(dbrokers[i] == want, "group-sent-to-its-coordinator")
		}
	}
	vReach()
}
