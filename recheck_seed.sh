#!/bin/bash
# recheck_seed.sh <seeded/<id>-<name>> [extra check ids...]: apply a stored seeded change to /repo,
# run the quick check(s), restore /repo, and record which checks detect it in meta.json.
set -u
D=$(cd "$1" && pwd); shift
ID=$(basename "$D" | cut -d- -f1)
CHECKS="$ID $*"
git -C /repo diff --quiet || { echo "/repo not clean"; exit 2; }
git -C /repo apply "$D/patch.diff" || { echo "patch does not apply"; exit 2; }
DET=""
for c in $CHECKS; do
  ( cd /verif && timeout 3000 ./check $c quick -noevidence >"$D/check_$c.log" 2>&1 ); E=$?
  echo "check $c quick with change: exit $E" | tee -a "$D/run.log"
  grep -h "^VIOLATION" "$D/check_$c.log" | head -3 | tee -a "$D/run.log"
  [ $E -eq 1 ] && DET="$DET $c"
done
git -C /repo checkout -- .
echo "detected by (after strengthening):$DET" | tee -a "$D/run.log"
python3 - "$D" "$DET" <<'PY'
import json,sys
d,det=sys.argv[1:3]
m=json.load(open(d+'/meta.json'))
if 'detected_by_quick_checks_initially' not in m:
    m['detected_by_quick_checks_initially']=m.get('detected_by_quick_checks',[])
m['detected_by_quick_checks']=det.split()
json.dump(m,open(d+'/meta.json','w'),indent=1)
PY
