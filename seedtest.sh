#!/bin/bash
# seedtest.sh <property-id> <name> <dir containing seeded.patch and a demo *_test.go> [extra check ids...]
# Confirms a seeded change (compiles, suite passes, demo fails with / passes without it) in a
# scratch worktree outside /repo and /verif, then applies it to /repo, runs the quick check(s),
# and restores /repo. Results go to /verif/seeded/<id>-<name>/.
set -u
export GOFLAGS=-mod=mod GOPROXY=off GOSUMDB=off GOTOOLCHAIN=local
ID=$1; NAME=$2; SRC=$3; shift 3
CHECKS="$ID $*"
OUT=/verif/seeded/$ID-$NAME
mkdir -p "$OUT"
cp "$SRC/seeded.patch" "$OUT/patch.diff"
DEMO=$(ls "$SRC"/zz_seeded*_test.go "$SRC"/mocks/zz_seeded*_test.go 2>/dev/null | head -1)
cp "$DEMO" "$OUT/" 2>/dev/null
[ -f "$SRC/seeded_notes.md" ] && cp "$SRC/seeded_notes.md" "$OUT/notes.md"
WT=$(mktemp -d /tmp/sv-XXXXXX)
git -C /repo worktree add -q --detach "$WT" HEAD
DEMODIR=$WT; case "$DEMO" in */mocks/*) DEMODIR=$WT/mocks;; esac
cp "$DEMO" "$DEMODIR/"
DNAME="($(grep -o 'func Test[A-Za-z0-9_]*' "$DEMO" | sed 's/func //' | paste -sd'|'))"
res() { echo "$1" | tee -a "$OUT/run.log"; }
: > "$OUT/run.log"
( cd "$DEMODIR" && timeout 300 go test -vet=off -count=1 -run "^$DNAME\$" . >"$OUT/demo_without.log" 2>&1 ); DW=$?
res "demo without change: exit $DW (want 0)"
( cd "$WT" && git apply "$OUT/patch.diff" ) || { res "patch does not apply"; }
( cd "$WT" && go build ./... >"$OUT/build.log" 2>&1 ); B=$?
res "build with change: exit $B (want 0)"
( cd "$DEMODIR" && timeout 300 go test -vet=off -count=1 -run "^$DNAME\$" . >"$OUT/demo_with.log" 2>&1 ); DC=$?
res "demo with change: exit $DC (want non-zero)"
rm -f "$DEMODIR/$(basename "$DEMO")"
( cd "$WT" && timeout 1500 go test -vet=off -count=1 -timeout 25m ./... >"$OUT/suite.log" 2>&1 ); S=$?
res "suite with change: exit $S (want 0)"
git -C /repo worktree remove --force "$WT"
# now the checks against /repo with the change applied
git -C /repo apply "$OUT/patch.diff" || { res "patch does not apply to /repo"; exit 2; }
DET=""
for c in $CHECKS; do
  ( cd /verif && timeout 3000 ./check $c quick -noevidence >"$OUT/check_$c.log" 2>&1 ); E=$?
  res "check $c quick with change: exit $E"
  grep -h "^VIOLATION" "$OUT/check_$c.log" | head -3 | tee -a "$OUT/run.log"
  [ $E -eq 1 ] && DET="$DET $c"
done
git -C /repo checkout -- .
res "detected by:$DET"
python3 - "$OUT" "$ID" "$NAME" "$DW" "$B" "$DC" "$S" "$DET" <<'PY'
import json,sys
out,pid,name,dw,b,dc,s,det=sys.argv[1:9]
notes=''
try: notes=open(out+'/notes.md').read()
except: pass
json.dump({"property":pid,"name":name,"confirmed":{"demo_passes_without_change":dw=="0","builds_with_change":b=="0","demo_fails_with_change":dc!="0","suite_passes_with_change":s=="0"},
 "detected_by_quick_checks":det.split(),"needs_to_manifest_and_notes":notes,"ran":"seedtest.sh (scratch worktree: build, demo with/without, full suite; then git apply to /repo, ./check <id> quick, git checkout)"},open(out+'/meta.json','w'),indent=1)
PY
