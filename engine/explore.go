package main

// Decisions, path condition, failures, DFS over decision vectors, worker pool.

import (
	"fmt"
	"os"
	"runtime/debug"
	"sort"
	"strings"
	"sync"
	"time"

	"golang.org/x/tools/go/ssa"
)

type Decision struct {
	Kind   byte     `json:"k"` // B branch, F forced branch, Z concretise, C choose, S sched, M map order
	N      int      `json:"n"`
	Choice int      `json:"c"`
	Vals   []uint64 `json:"v,omitempty"`
	Why    string   `json:"w,omitempty"`
}

type Failure struct {
	Property string            `json:"property"`
	Harness  string            `json:"harness"`
	Kind     string            `json:"kind"` // assert, panic, deadlock, alloc, hang
	Label    string            `json:"label"`
	Site     string            `json:"site"`
	Detail   string            `json:"detail"`
	Stack    []string          `json:"stack,omitempty"`
	Model    map[string]uint64 `json:"model"`
	Path     []Decision        `json:"path"`
	Events   []string          `json:"events,omitempty"`
	Count    int               `json:"count"`
	Replayed bool              `json:"replayed"`
	Known    string            `json:"known,omitempty"`
	Class    string            `json:"class,omitempty"`
	NativeRan        bool   `json:"native_ran,omitempty"`
	NativeReproduced bool   `json:"native_reproduced,omitempty"`
	NativeNote       string `json:"native_note,omitempty"`
}

func (f *Failure) key() string {
	return f.Harness + "|" + f.Kind + "|" + f.Label + "|" + f.Site + "|" + f.Class
}

type Harness struct {
	Name     string
	Prop     string
	Fn       *ssa.Function
	mu       sync.Mutex
	paths    map[string]int // by end reason
	nPaths   int
	failures map[string]*Failure
	covers   map[string]int
	reach    int
	fnCover  map[*ssa.Function]bool
	notes    map[string]int
	samples  []string
	queued   int
	maxPaths int
	overflow bool
	steps    int64
	decKinds map[byte]int
	assumes  map[string]bool
	inconc   map[string]int
	bounds   map[string]int
	wall     time.Duration
	asserts  map[string]int // label -> discharged count
	natSamples []*Failure   // selftest: models of completed paths to be run natively
	natNext    int
	maxPathSteps int // longest explored path, in SSA instructions
	failedPaths  int // paths on which some assertion failed / a panic occurred
	boundPaths   int // paths that ended by exhausting a step/loop/recursion bound or in a deadlock
}

func newHarness(name string, fn *ssa.Function) *Harness {
	h := &Harness{Name: name, Fn: fn, paths: map[string]int{}, failures: map[string]*Failure{},
		covers: map[string]int{}, fnCover: map[*ssa.Function]bool{}, notes: map[string]int{},
		decKinds: map[byte]int{}, assumes: map[string]bool{}, inconc: map[string]int{},
		bounds: map[string]int{}, asserts: map[string]int{}}
	parts := strings.SplitN(strings.TrimPrefix(name, "verifHarness_"), "_", 2)
	h.Prop = parts[0]
	return h
}

// ---------- decisions ----------

func (in *Interp) inPrefix() bool { return in.decIdx < len(in.prefix) }

func (in *Interp) decide(d Decision, why string) Decision {
	if in.decIdx < len(in.prefix) {
		p := in.prefix[in.decIdx]
		if p.Kind != d.Kind && !(isBr(p.Kind) && isBr(d.Kind)) {
			in.fail("internal", fmt.Sprintf("replay divergence at decision %d: recorded %c(%s) now %c(%s)", in.decIdx, p.Kind, p.Why, d.Kind, why))
		}
		in.decIdx++
		in.path = append(in.path, p)
		return p
	}
	d.Why = why
	d.Choice = 0
	// siblings
	for alt := d.N - 1; alt >= 1; alt-- {
		sib := make([]Decision, len(in.path)+1)
		copy(sib, in.path)
		nd := d
		nd.Choice = alt
		sib[len(in.path)] = nd
		in.w.push(in.harness, sib)
	}
	in.path = append(in.path, d)
	in.decIdx++
	return d
}

func isBr(k byte) bool { return k == 'B' || k == 'F' }

func (in *Interp) check(extra *Term, vars []*Term) (SatResult, map[*Term]uint64) {
	r, m := in.w.solver.Check(in.pc, extra, vars)
	w := in.w
	if len(w.xsolvers) > 0 {
		w.xcount++
		if w.xcount%w.pool.xEvery == 0 {
			for _, xs := range w.xsolvers {
				r2, _ := xs.Check(in.pc, extra, nil)
				w.pool.xRecord(xs.name, r, r2, in.harness.Name, in.where(in.cur))
			}
		}
	}
	return r, m
}

// xRecord tallies one cross-solver comparison (selftest: the same query decided by a second solver).
func (p *Pool) xRecord(name string, r, r2 SatResult, harness, where string) {
	p.mu.Lock()
	defer p.mu.Unlock()
	if p.xStats == nil {
		p.xStats = map[string]*xStat{}
	}
	st := p.xStats[name]
	if st == nil {
		st = &xStat{}
		p.xStats[name] = st
	}
	st.Compared++
	switch {
	case r == Unknown || r2 == Unknown:
		st.Unknown++
	case r == r2:
		st.Agree++
	default:
		st.Disagree++
		if len(st.Examples) < 5 {
			st.Examples = append(st.Examples, fmt.Sprintf("%s at %s: primary=%s %s=%s", harness, where, r, name, r2))
		}
	}
}

type xStat struct {
	Compared int      `json:"compared"`
	Agree    int      `json:"agree"`
	Unknown  int      `json:"either_unknown"`
	Disagree int      `json:"disagree"`
	Examples []string `json:"disagreements,omitempty"`
}

// ---------- model cache (counterexample cache): models known to satisfy a prefix of the PC ----------

type cachedModel struct {
	env      map[string]uint64
	memo     map[int32]uint64
	validLen int  // satisfies pc[:validLen]
	dead     bool // violates some pc term
}

// modelSat reports whether a cached model satisfies the current PC and cond (terms are
// hash-consed per worker, so the memo stays valid across paths).
func (in *Interp) modelSat(m *cachedModel, cond *Term) bool {
	for _, p := range in.pc {
		if evalTerm(p, m.env, m.memo) == 0 {
			return false
		}
	}
	return evalTerm(cond, m.env, m.memo) != 0
}

func (in *Interp) cacheLookup(cond *Term) bool {
	ms := in.w.models
	for i := len(ms) - 1; i >= 0; i-- {
		if in.modelSat(ms[i], cond) {
			if i != len(ms)-1 { // move to front (most recently useful last)
				m := ms[i]
				copy(ms[i:], ms[i+1:])
				ms[len(ms)-1] = m
			}
			return true
		}
	}
	return false
}

func (in *Interp) cacheAdd(model map[*Term]uint64) {
	if model == nil {
		return
	}
	env := make(map[string]uint64, len(model))
	for t, v := range model {
		env[t.name] = v
	}
	w := in.w
	if len(w.models) >= 48 {
		w.models = w.models[1:]
	}
	w.models = append(w.models, &cachedModel{env: env, memo: map[int32]uint64{}})
}

// feasible decides satisfiability of PC ∧ cond, consulting the model cache first. Variables
// created later default to 0 in cached models, which is sound because a fresh variable is
// unconstrained when it is created (its constraints enter the PC afterwards and are re-checked).
func (in *Interp) feasible(cond *Term) SatResult {
	if in.cacheLookup(cond) {
		in.w.cacheHits++
		return Sat
	}
	r, m := in.check(cond, in.vars)
	if r == Sat {
		in.cacheAdd(m)
	}
	return r
}

// branch decides a symbolic condition; returns the side taken.
func (in *Interp) branch(th *Thread, c *Term, why string) bool {
	if in.decIdx < len(in.prefix) {
		p := in.prefix[in.decIdx]
		if !isBr(p.Kind) {
			in.fail("internal", fmt.Sprintf("replay divergence at decision %d: recorded %c(%s), now branch(%s)", in.decIdx, p.Kind, p.Why, why))
		}
		in.decIdx++
		in.path = append(in.path, p)
		taken := p.Choice == 0
		if p.Kind == 'B' {
			if taken {
				in.pc = append(in.pc, c)
			} else {
				in.pc = append(in.pc, in.st.Not(c))
			}
		}
		return taken
	}
	rT := in.feasible(c)
	if rT == Unsat {
		in.path = append(in.path, Decision{Kind: 'F', N: 1, Choice: 1, Why: why})
		in.decIdx++
		return false
	}
	nc := in.st.Not(c)
	rF := in.feasible(nc)
	if rF == Unsat {
		in.path = append(in.path, Decision{Kind: 'F', N: 1, Choice: 0, Why: why})
		in.decIdx++
		return true
	}
	if rT == Unknown || rF == Unknown {
		in.inconclusive("branch feasibility unknown (" + why + ") in " + in.where(th))
	}
	d := in.decide(Decision{Kind: 'B', N: 2}, why)
	_ = d
	in.pc = append(in.pc, c)
	return true
}

// concretize picks a concrete value for t, forking over all feasible values.
func (in *Interp) concretize(th *Thread, t *Term, why string) uint64 {
	if in.decIdx < len(in.prefix) {
		p := in.prefix[in.decIdx]
		if p.Kind != 'Z' {
			in.fail("internal", fmt.Sprintf("replay divergence at decision %d: recorded %c(%s), now concretize(%s)", in.decIdx, p.Kind, p.Why, why))
		}
		in.decIdx++
		in.path = append(in.path, p)
		v := p.Vals[p.Choice]
		in.pc = append(in.pc, in.st.Eq(t, in.st.Const(t.w, v)))
		return v
	}
	var vals []uint64
	block := in.st.tt
	capN := in.czCap
	for {
		r, m := in.check(block, []*Term{t})
		if r == Unsat {
			break
		}
		if r == Unknown {
			in.inconclusive("concretisation query unknown (" + why + ")")
			in.fail("inconclusive", "concretize "+why)
		}
		v := m[t]
		vals = append(vals, v)
		if len(vals) > capN {
			in.fail("unwind", fmt.Sprintf("concretisation (%s) has more than %d feasible values in %s", why, capN, in.where(th)))
		}
		block = in.st.And(block, in.st.Not(in.st.Eq(t, in.st.Const(t.w, v))))
	}
	if len(vals) == 0 {
		in.fail("internal", "concretize: path condition unsatisfiable")
	}
	sort.Slice(vals, func(i, j int) bool { return vals[i] < vals[j] })
	d := in.decide(Decision{Kind: 'Z', N: len(vals), Vals: vals}, why)
	v := d.Vals[d.Choice]
	in.pc = append(in.pc, in.st.Eq(t, in.st.Const(t.w, v)))
	return v
}

func (in *Interp) where(th *Thread) string {
	if th != nil && th.top != nil {
		return th.top.fn.String()
	}
	return "?"
}

// choose is an enumerated decision of kind k.
func (in *Interp) choose(k byte, n int, why string) int {
	if n <= 1 {
		return 0
	}
	return in.decide(Decision{Kind: k, N: n}, why).Choice
}

// assume adds c to the path condition, ending the path if it becomes infeasible.
func (in *Interp) assume(th *Thread, c *Term) {
	if c.IsConst() {
		if c.k == 0 {
			in.fail("assume", "")
		}
		return
	}
	if !in.inPrefix() {
		r := in.feasible(c)
		if r == Unsat {
			in.fail("assume", "")
		}
	}
	in.pc = append(in.pc, c)
}

func (in *Interp) queryFeasible(th *Thread, c *Term) bool {
	if c.IsConst() {
		return c.k != 0
	}
	if in.inPrefix() {
		return false
	}
	r, _ := in.check(c, nil)
	if r == Unknown {
		in.inconclusive("feasibility unknown")
	}
	return r == Sat
}

func (in *Interp) inconclusive(what string) {
	in.harness.mu.Lock()
	in.harness.inconc[what]++
	in.harness.mu.Unlock()
}

// recordFailure stores a failure with a model of PC ∧ cond.
func (in *Interp) recordFailure(th *Thread, f *Failure, cond *Term) {
	f.Harness = in.harness.Name
	f.Property = in.harness.Prop
	f.Class = in.failClass
	f.Path = append([]Decision(nil), in.path...)
	f.Events = append([]string(nil), in.events...)
	f.Count = 1
	if in.concrete != nil {
		in.failures = append(in.failures, f)
		return
	}
	// already recorded for this (harness, label, site, class): count it, no model needed
	h0 := in.harness
	h0.mu.Lock()
	if old, ok := h0.failures[f.key()]; ok {
		old.Count++
		h0.mu.Unlock()
		in.failures = append(in.failures, f)
		return
	}
	h0.mu.Unlock()
	r, m := in.check(cond, in.vars)
	if r != Sat {
		if r == Unknown {
			in.inconclusive("model for failure unknown: " + f.Label)
		}
		return
	}
	m, r = in.repairCRC(cond, m)
	if r != Sat {
		if r == Unknown {
			in.inconclusive("checksum-consistent model for failure unknown: " + f.Label)
		} else {
			in.notes = append(in.notes, "counterexample needing a CRC collision dropped: "+f.Label)
		}
		return
	}
	f.Model = map[string]uint64{}
	for t, v := range m {
		f.Model[t.name] = v
	}
	in.failures = append(in.failures, f)
	h := in.harness
	h.mu.Lock()
	if old, ok := h.failures[f.key()]; ok {
		old.Count++
	} else {
		h.failures[f.key()] = f
	}
	h.mu.Unlock()
}

// mapOrder applies the map-iteration-order policy to a fresh iterator.
func (in *Interp) mapOrder(th *Thread, fr *Frame, it *rangeIter) {
	n := len(it.idx)
	if n < 2 || in.mapPerm == 0 || n > in.mapPerm {
		return
	}
	// permutations of up to mapPerm entries, as one decision
	perms := permutations(n)
	c := in.choose('M', len(perms), "maporder")
	p := perms[c]
	old := append([]int(nil), it.idx...)
	for i, j := range p {
		it.idx[i] = old[j]
	}
}

func permutations(n int) [][]int {
	var out [][]int
	a := make([]int, n)
	for i := range a {
		a[i] = i
	}
	var rec func(k int)
	rec = func(k int) {
		if k == n {
			out = append(out, append([]int(nil), a...))
			return
		}
		for i := k; i < n; i++ {
			a[k], a[i] = a[i], a[k]
			rec(k + 1)
			a[k], a[i] = a[i], a[k]
		}
	}
	rec(0)
	return out
}

// ---------- workers ----------

type Job struct {
	h      *Harness
	prefix []Decision
}

type Pool struct {
	mu      sync.Mutex
	cond    *sync.Cond
	queue   []Job
	idle    int
	n       int
	done    bool
	started time.Time
	deadline time.Time
	// selftest facilities
	xNames    []string // secondary solvers re-deciding every xEvery-th query
	xEvery    int
	xStats    map[string]*xStat
	kfs       []KnownFinding
	natSample int // per harness: number of completed paths whose model is also run natively
}

type Worker struct {
	id     int
	prog   *Program
	pool   *Pool
	st     *Store
	solver *Solver
	local  []Job
	paths  int
	tier   int
	solverName string
	timeout time.Duration
	qTotal, qSat, qUnsat, qUnknown int
	qWall  time.Duration
	trace  bool
	cacheHits int
	models    []*cachedModel
	xsolvers  []*Solver
	xcount    int
}

func (w *Worker) push(h *Harness, prefix []Decision) {
	h.mu.Lock()
	h.queued++
	h.mu.Unlock()
	w.local = append(w.local, Job{h, prefix})
}

func (w *Worker) resetSolver() {
	if w.solver != nil {
		w.qTotal += w.solver.nQueries
		w.qSat += w.solver.nSat
		w.qUnsat += w.solver.nUnsat
		w.qUnknown += w.solver.nUnknown
		w.qWall += w.solver.wall
		w.solver.Close()
	}
	w.st = NewStore()
	w.models = nil
	s, err := NewSolver(w.solverName, w.timeout)
	if err != nil {
		panic(err)
	}
	w.solver = s
	for _, x := range w.xsolvers {
		x.Close()
	}
	w.xsolvers = nil
	if w.pool != nil {
		for _, n := range w.pool.xNames {
			xt := w.timeout
			if xt > 5*time.Second {
				xt = 5 * time.Second
			}
			x, err := NewSolver(n, xt)
			if err != nil {
				panic(err)
			}
			w.xsolvers = append(w.xsolvers, x)
		}
	}
}

func (w *Worker) run() {
	w.resetSolver()
	defer func() {
		w.resetSolver()
		w.solver.Close()
		for _, x := range w.xsolvers {
			x.Close()
		}
	}()
	p := w.pool
	for {
		var job Job
		if n := len(w.local); n > 0 {
			job = w.local[n-1]
			w.local = w.local[:n-1]
			// donate the shallowest pending job if others are idle
			if len(w.local) > 0 {
				p.mu.Lock()
				if p.idle > 0 && len(p.queue) < p.idle {
					p.queue = append(p.queue, w.local[0])
					w.local = w.local[1:]
					p.cond.Signal()
				}
				p.mu.Unlock()
			}
		} else {
			p.mu.Lock()
			for len(p.queue) == 0 && !p.done {
				p.idle++
				if p.idle == p.n {
					p.done = true
					p.cond.Broadcast()
					break
				}
				p.cond.Wait()
				p.idle--
			}
			if p.done && len(p.queue) == 0 {
				p.mu.Unlock()
				return
			}
			job = p.queue[0]
			p.queue = p.queue[1:]
			p.mu.Unlock()
		}
		w.runJob(job)
		if len(w.st.terms) > 1500000 {
			w.resetSolver()
		}
	}
}

func (w *Worker) runJob(job Job) {
	h := job.h
	h.mu.Lock()
	if h.overflow || (h.maxPaths > 0 && h.nPaths >= h.maxPaths) || (!w.pool.deadline.IsZero() && time.Now().After(w.pool.deadline)) {
		h.overflow = true
		h.mu.Unlock()
		return
	}
	h.mu.Unlock()
	in := w.newInterp(h, job.prefix, nil)
	reason, detail := in.runPath()
	w.paths++
	if reason == "ok" && w.pool.natSample > 0 && len(in.failures) == 0 && in.concrete == nil {
		h.mu.Lock()
		take := len(h.natSamples) < w.pool.natSample && h.nPaths >= h.natNext
		if take {
			h.natNext = h.nPaths + h.nPaths/2 + 1
		}
		h.mu.Unlock()
		if take {
			if r, m := in.check(nil, in.vars); r == Sat {
				if m, r = in.repairCRC(nil, m); r == Sat {
					f := &Failure{Property: h.Prop, Harness: h.Name, Kind: "sample", Model: map[string]uint64{}, Path: append([]Decision(nil), in.path...)}
					for t, v := range m {
						f.Model[t.name] = v
					}
					h.mu.Lock()
					h.natSamples = append(h.natSamples, f)
					h.mu.Unlock()
				}
			}
		}
	}
	h.mu.Lock()
	h.nPaths++
	h.paths[reason]++
	h.steps += int64(in.steps)
	if in.steps > h.maxPathSteps {
		h.maxPathSteps = in.steps
	}
	if reason == "hang" || reason == "unwind" || reason == "deadlock" {
		// a tree on which paths keep running into the bounds would take for ever to enumerate:
		// after 300 such paths the harness stops and is reported as incomplete (the failures
		// recorded so far are reported as usual)
		h.boundPaths++
		if h.boundPaths >= 300 {
			h.overflow = true
		}
	}
	unknownFail := false
	for _, f := range in.failures {
		if matchKnown(w.pool.kfs, f) == nil {
			unknownFail = true
		}
	}
	if unknownFail {
		// likewise a harness on which tens of thousands of paths fail has made its point
		// (paths failing only with a listed known finding do not count)
		h.failedPaths++
		if h.failedPaths >= 20000 {
			h.overflow = true
		}
	}
	if in.reached {
		h.reach++
	}
	for f := range in.fnCover {
		h.fnCover[f] = true
	}
	for _, d := range in.path {
		h.decKinds[d.Kind]++
	}
	for _, n := range in.notes {
		h.notes[n]++
	}
	if reason == "unwind" || reason == "unsupported" || reason == "internal" || reason == "inconclusive" {
		h.inconc[reason+": "+detail]++
	}
	if len(h.samples) < 3 && reason == "ok" {
		h.samples = append(h.samples, in.describePath())
	}
	h.mu.Unlock()
}

func (in *Interp) describePath() string {
	var sb strings.Builder
	for i, d := range in.path {
		if i > 40 {
			sb.WriteString("…")
			break
		}
		if d.Kind == 'F' {
			continue
		}
		fmt.Fprintf(&sb, "%c%d/%d ", d.Kind, d.Choice, d.N)
	}
	fmt.Fprintf(&sb, "| pc=%d terms, vars=%d, steps=%d", len(in.pc), len(in.vars), in.steps)
	if len(in.events) > 0 {
		ev := in.events
		if len(ev) > 12 {
			ev = ev[:12]
		}
		sb.WriteString(" | " + strings.Join(ev, "; "))
	}
	return sb.String()
}

func (w *Worker) newInterp(h *Harness, prefix []Decision, concrete map[string]uint64) *Interp {
	in := &Interp{w: w, st: w.st, prog: w.prog, globals: map[*ssa.Global]*Cell{}, consts: map[*ssa.Const]Value{},
		prefix: prefix, varCount: map[string]int{}, concrete: concrete, harness: h,
		maxSteps: w.prog.maxSteps, allocLim: -1, crcMemo: map[string]*Term{},
		loopCount: map[*ssa.BasicBlock]int{}, fnCover: map[*ssa.Function]int{}, userState: map[string]Value{},
		czCap: 64, delayBound: 0, maxTicks: 2, tier: w.tier, maxLoop: w.prog.maxLoop, trace: w.trace,
		timerByCell: map[*Cell]*Timer{}, crcPoly: map[*Cell]uint32{}}
	return in
}

// runPath executes the harness once along in.prefix (then canonical choices).
func (in *Interp) runPath() (reason, detail string) {
	defer func() {
		if e := recover(); e != nil {
			if pe, ok := e.(pathEnd); ok {
				reason, detail = pe.reason, pe.detail
				return
			}
			// engine bug or unsupported construct: report with the interpreted location
			where := ""
			if in.cur != nil && in.cur.top != nil {
				fr := in.cur.top
				ins := ""
				if fr.pc < len(fr.block.Instrs) {
					ins = insStr(fr.block.Instrs[fr.pc])
				}
				where = fmt.Sprintf("%s: %s", fr.fn, ins)
				for f := fr.caller; f != nil && len(where) < 600; f = f.caller {
					where += " <- " + f.fn.String()
				}
			}
			reason, detail = "internal", fmt.Sprintf("%v at %s", e, where)
			if os.Getenv("SYMGO_DEBUG") != "" {
				fmt.Fprintf(os.Stderr, "INTERNAL: %s\n%s\n", detail, debug.Stack())
			}
		}
	}()
	main := in.newThread("main")
	in.cur = main
	// package initialisers of the packages under test
	for _, initFn := range in.prog.inits {
		in.pushFrame(main, initFn, nil, nil, nil)
		in.runAll(main)
		main.status = Runnable
	}
	in.pushFrame(main, in.harness.Fn, nil, nil, nil)
	in.runAll(main)
	return "ok", ""
}
