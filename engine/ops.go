package main

// Binary operators and conversions.

import (
	"fmt"
	"go/token"
	"go/types"
	"math"
	"unicode/utf8"
)

func (in *Interp) binop(th *Thread, op token.Token, xt, yt types.Type, a, b Value) Value {
	switch x := a.(type) {
	case *Term:
		y, ok := b.(*Term)
		if !ok {
			panic(fmt.Sprintf("binop %s: Term vs %T", op, b))
		}
		return in.intBinop(th, op, xt, yt, x, y)
	case Float:
		y := b.(Float)
		switch op {
		case token.ADD:
			return in.roundF(xt, x.f+y.f)
		case token.SUB:
			return in.roundF(xt, x.f-y.f)
		case token.MUL:
			return in.roundF(xt, x.f*y.f)
		case token.QUO:
			return in.roundF(xt, x.f/y.f)
		case token.EQL:
			return in.st.Bool(x.f == y.f)
		case token.NEQ:
			return in.st.Bool(x.f != y.f)
		case token.LSS:
			return in.st.Bool(x.f < y.f)
		case token.LEQ:
			return in.st.Bool(x.f <= y.f)
		case token.GTR:
			return in.st.Bool(x.f > y.f)
		case token.GEQ:
			return in.st.Bool(x.f >= y.f)
		}
		panic("float binop " + op.String())
	case string, *SymStr, *LazyStr:
		switch op {
		case token.ADD:
			_, la := a.(*LazyStr)
			_, lb := b.(*LazyStr)
			if la || lb {
				return in.lazyConcat(a, b)
			}
			if sa, ok := a.(string); ok {
				if sb, ok := b.(string); ok {
					return sa + sb
				}
			}
			bs := append(append([]*Term(nil), in.strBytes(a)...), in.strBytes(b)...)
			return in.mkStr(bs)
		case token.EQL:
			return in.strEq(a, b)
		case token.NEQ:
			return in.st.Not(in.strEq(a, b))
		case token.LSS:
			return in.strLess(a, b)
		case token.GTR:
			return in.strLess(b, a)
		case token.LEQ:
			return in.st.Not(in.strLess(b, a))
		case token.GEQ:
			return in.st.Not(in.strLess(a, b))
		}
		panic("string binop " + op.String())
	}
	switch op {
	case token.EQL:
		return in.eqVal(th, xt, in.coerceNil(a, b), in.coerceNil(b, a))
	case token.NEQ:
		return in.st.Not(in.eqVal(th, xt, in.coerceNil(a, b), in.coerceNil(b, a)))
	}
	panic(fmt.Sprintf("binop %s on %T", op, a))
}

// coerceNil turns an untyped nil operand into the zero value matching the other operand.
func (in *Interp) coerceNil(a, other Value) Value {
	if a != nil {
		return a
	}
	switch other.(type) {
	case Pointer:
		return Pointer{}
	case Slice:
		return Slice{}
	case *Map:
		return (*Map)(nil)
	case *Chan:
		return (*Chan)(nil)
	case Iface:
		return Iface{}
	case *Closure:
		return (*Closure)(nil)
	}
	return a
}

func (in *Interp) roundF(t types.Type, f float64) Float {
	if b, ok := t.Underlying().(*types.Basic); ok && b.Kind() == types.Float32 {
		return Float{float64(float32(f))}
	}
	return Float{f}
}

func (in *Interp) intBinop(th *Thread, op token.Token, xt, yt types.Type, x, y *Term) Value {
	st := in.st
	if x.w == 0 { // bool
		switch op {
		case token.EQL:
			return st.Eq(x, y)
		case token.NEQ:
			return st.Not(st.Eq(x, y))
		case token.AND, token.LAND:
			return st.And(x, y)
		case token.OR, token.LOR:
			return st.Or(x, y)
		}
		panic("bool binop " + op.String())
	}
	signed := isSigned(xt)
	switch op {
	case token.ADD:
		return st.Bin(OpAdd, x, y)
	case token.SUB:
		return st.Bin(OpSub, x, y)
	case token.MUL:
		return st.Bin(OpMul, x, y)
	case token.QUO, token.REM:
		zero := st.Eq(y, st.Const(y.w, 0))
		if zero.IsConst() {
			if zero.k != 0 {
				in.panicRT(th, "integer divide by zero")
			}
		} else if in.branch(th, zero, "div0") {
			in.panicRT(th, "integer divide by zero")
		}
		if op == token.QUO {
			if signed {
				return st.Bin(OpSDiv, x, y)
			}
			return st.Bin(OpUDiv, x, y)
		}
		if signed {
			return st.Bin(OpSRem, x, y)
		}
		return st.Bin(OpURem, x, y)
	case token.AND:
		return st.Bin(OpBAnd, x, y)
	case token.OR:
		return st.Bin(OpBOr, x, y)
	case token.XOR:
		return st.Bin(OpBXor, x, y)
	case token.AND_NOT:
		return st.Bin(OpBAnd, x, st.Un(OpBNot, y))
	case token.SHL, token.SHR:
		// shift count: negative signed counts panic
		if isSigned(yt) {
			neg := st.Cmp(OpSlt, y, st.Const(y.w, 0))
			if neg.IsConst() {
				if neg.k != 0 {
					in.panicRT(th, "negative shift amount")
				}
			} else if in.branch(th, neg, "negshift") {
				in.panicRT(th, "negative shift amount")
			}
		}
		// bring the count to the width of x, saturating at the width
		var cnt *Term
		if y.w == x.w {
			cnt = y
		} else if y.w < x.w {
			cnt = st.ZExt(y, x.w)
		} else {
			big := st.Cmp(OpUle, st.Const(y.w, uint64(x.w)), y)
			cnt = st.Ite(big, st.Const(x.w, uint64(x.w)), st.Extract(y, x.w-1, 0))
		}
		if op == token.SHL {
			return st.Bin(OpShl, x, cnt)
		}
		if signed {
			return st.Bin(OpAShr, x, cnt)
		}
		return st.Bin(OpLShr, x, cnt)
	case token.EQL:
		return st.Eq(x, y)
	case token.NEQ:
		return st.Not(st.Eq(x, y))
	case token.LSS:
		if signed {
			return st.Cmp(OpSlt, x, y)
		}
		return st.Cmp(OpUlt, x, y)
	case token.LEQ:
		if signed {
			return st.Cmp(OpSle, x, y)
		}
		return st.Cmp(OpUle, x, y)
	case token.GTR:
		if signed {
			return st.Cmp(OpSlt, y, x)
		}
		return st.Cmp(OpUlt, y, x)
	case token.GEQ:
		if signed {
			return st.Cmp(OpSle, y, x)
		}
		return st.Cmp(OpUle, y, x)
	}
	panic("int binop " + op.String())
}

func (in *Interp) convert(th *Thread, from, to types.Type, v Value) Value {
	fu, tu := from.Underlying(), to.Underlying()
	// string conversions
	if tb, ok := tu.(*types.Basic); ok && tb.Info()&types.IsString != 0 {
		switch x := v.(type) {
		case string, *SymStr, *LazyStr:
			return v
		case Slice: // []byte or []rune -> string
			et := fu.(*types.Slice).Elem().Underlying().(*types.Basic)
			if et.Kind() == types.Uint8 {
				return in.mkStr(in.sliceTerms(x))
			}
			// []rune
			var bs []byte
			for _, e := range in.sliceElems(x) {
				t := e.(*Term)
				if !t.IsConst() {
					in.fail("unsupported", "[]rune to string with symbolic rune")
				}
				bs = utf8.AppendRune(bs, rune(t.S()))
			}
			return string(bs)
		case *Term: // integer -> string (rune)
			if !x.IsConst() {
				in.fail("unsupported", "symbolic rune to string")
			}
			return string(rune(x.S()))
		}
	}
	if ts, ok := tu.(*types.Slice); ok {
		if s, ok := v.(Slice); ok {
			return s
		}
		// string -> []byte / []rune
		et := ts.Elem().Underlying().(*types.Basic)
		bs := in.strBytes(v)
		if et.Kind() == types.Uint8 {
			out := in.makeSlice(ts.Elem(), len(bs), len(bs))
			a := out.arr.v.(*Agg)
			for i, b := range bs {
				a.v[i] = b
			}
			return out
		}
		s, ok := v.(string)
		if !ok {
			in.fail("unsupported", "symbolic string to []rune")
		}
		rs := []rune(s)
		out := in.makeSlice(ts.Elem(), len(rs), len(rs))
		a := out.arr.v.(*Agg)
		for i, r := range rs {
			a.v[i] = in.st.Const(32, uint64(r))
		}
		return out
	}
	switch x := v.(type) {
	case *Term:
		tb, ok := tu.(*types.Basic)
		if !ok {
			panic(fmt.Sprintf("convert Term to %v", to))
		}
		switch {
		case tb.Info()&types.IsInteger != 0:
			tw, _ := in.intWidth(tb)
			if tw == x.w {
				return x
			}
			if tw < x.w {
				return in.st.Extract(x, tw-1, 0)
			}
			if isSigned(from) {
				return in.st.SExt(x, tw)
			}
			return in.st.ZExt(x, tw)
		case tb.Info()&types.IsFloat != 0:
			c := in.concInt(th, x, from, "int-to-float")
			if isSigned(from) {
				return in.roundF(to, float64(c))
			}
			return in.roundF(to, float64(uint64(c)))
		case tb.Info()&types.IsBoolean != 0:
			return x
		case tb.Kind() == types.UnsafePointer:
			in.fail("unsupported", "integer to unsafe.Pointer")
		}
	case Float:
		tb := tu.(*types.Basic)
		switch {
		case tb.Info()&types.IsFloat != 0:
			return in.roundF(to, x.f)
		case tb.Info()&types.IsInteger != 0:
			tw, signed := in.intWidth(tb)
			f := math.Trunc(x.f)
			if signed {
				return in.st.Const(tw, uint64(int64(f)))
			}
			return in.st.Const(tw, uint64(f))
		}
	case Pointer:
		return x // pointer <-> unsafe.Pointer
	}
	panic(fmt.Sprintf("convert %v -> %v (%T)", from, to, v))
}


func (in *Interp) lazyConcat(a, b Value) Value {
	var parts []Value
	for _, v := range []Value{a, b} {
		if l, ok := v.(*LazyStr); ok {
			if l.forced != nil {
				parts = append(parts, l.forced)
			} else {
				parts = append(parts, l.parts...)
			}
		} else {
			parts = append(parts, v)
		}
	}
	return &LazyStr{parts: parts}
}
