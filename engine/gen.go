package main

// Discovery of protocol bodies from /repo's current source (go/parser), emitted as an overlay
// file so harnesses can enumerate every request/response type and every version gate.

import (
	"fmt"
	"go/ast"
	"go/parser"
	"go/printer"
	"go/token"
	"os"
	"path/filepath"
	"sort"
	"strconv"
	"strings"
)

type bodyInfo struct {
	name       string
	file       string
	maxVersion int
	hasVersion bool // has a field `Version int16` (or int)
	versionType string
	isResponse bool
}

func exprString(fset *token.FileSet, e ast.Expr) string {
	var sb strings.Builder
	printer.Fprint(&sb, fset, e)
	return sb.String()
}

func discoverBodies(repo string) ([]bodyInfo, error) {
	fset := token.NewFileSet()
	files, _ := filepath.Glob(filepath.Join(repo, "*.go"))
	sort.Strings(files)
	type fileData struct {
		maxK    int
		structs map[string]*ast.StructType
	}
	methods := map[string]map[string]bool{} // type -> method names
	fileOf := map[string]string{}
	fdata := map[string]*fileData{}
	for _, f := range files {
		if strings.HasSuffix(f, "_test.go") {
			continue
		}
		src, err := os.ReadFile(f)
		if err != nil {
			return nil, err
		}
		if strings.Contains(string(src[:min(len(src), 400)]), "go:build") && strings.Contains(string(src[:min(len(src), 400)]), "functional") {
			continue
		}
		af, err := parser.ParseFile(fset, f, src, 0)
		if err != nil {
			return nil, err
		}
		fd := &fileData{structs: map[string]*ast.StructType{}}
		fdata[f] = fd
		ast.Inspect(af, func(n ast.Node) bool {
			switch x := n.(type) {
			case *ast.FuncDecl:
				if x.Recv != nil && len(x.Recv.List) == 1 {
					t := x.Recv.List[0].Type
					if s, ok := t.(*ast.StarExpr); ok {
						t = s.X
					}
					if id, ok := t.(*ast.Ident); ok {
						if methods[id.Name] == nil {
							methods[id.Name] = map[string]bool{}
						}
						methods[id.Name][x.Name.Name] = true
						fileOf[id.Name] = f
					}
				}
			case *ast.TypeSpec:
				if st, ok := x.Type.(*ast.StructType); ok {
					fd.structs[x.Name.Name] = st
				}
			case *ast.BinaryExpr:
				for _, pair := range [][2]ast.Expr{{x.X, x.Y}, {x.Y, x.X}} {
					lit, ok := pair[1].(*ast.BasicLit)
					if !ok || lit.Kind != token.INT {
						continue
					}
					if strings.Contains(strings.ToLower(exprString(fset, pair[0])), "version") {
						if k, err := strconv.Atoi(lit.Value); err == nil && k > fd.maxK && k < 30 {
							fd.maxK = k
						}
					}
				}
			case *ast.SwitchStmt:
				if x.Tag != nil && strings.Contains(strings.ToLower(exprString(fset, x.Tag)), "version") {
					for _, c := range x.Body.List {
						for _, e := range c.(*ast.CaseClause).List {
							if lit, ok := e.(*ast.BasicLit); ok && lit.Kind == token.INT {
								if k, err := strconv.Atoi(lit.Value); err == nil && k > fd.maxK && k < 30 {
									fd.maxK = k
								}
							}
						}
					}
				}
			}
			return true
		})
	}
	var out []bodyInfo
	for name, ms := range methods {
		if !(ms["requiredVersion"] && ms["encode"] && ms["decode"] && ms["key"] && ms["version"] && ms["headerVersion"]) {
			continue
		}
		f := fileOf[name]
		fd := fdata[f]
		bi := bodyInfo{name: name, file: filepath.Base(f), maxVersion: fd.maxK + 1, isResponse: strings.HasSuffix(name, "Response")}
		if st := fd.structs[name]; st != nil {
			for _, fl := range st.Fields.List {
				for _, n := range fl.Names {
					if n.Name == "Version" {
						if id, ok := fl.Type.(*ast.Ident); ok && (id.Name == "int16" || id.Name == "int") {
							bi.hasVersion = true
							bi.versionType = id.Name
						}
					}
				}
			}
		}
		out = append(out, bi)
	}
	sort.Slice(out, func(i, j int) bool { return out[i].name < out[j].name })
	return out, nil
}

func genBodiesFile(repo string) ([]byte, int, error) {
	bodies, err := discoverBodies(repo)
	if err != nil {
		return nil, 0, err
	}
	var sb strings.Builder
	sb.WriteString("//go:build verif\n\npackage sarama\n\n// Generated on every run from /repo's current source by symgo (engine/gen.go).\n\n")
	sb.WriteString("type vBodyInfo struct {\n\tname string\n\tmaxVersion int16\n\tisResponse bool\n\thasVersion bool\n\tmk func(v int16) protocolBody\n\tmkBlank func() protocolBody\n}\n\n")
	sb.WriteString("var vBodies = []vBodyInfo{\n")
	for _, b := range bodies {
		mk := fmt.Sprintf("func(v int16) protocolBody { return new(%s) }", b.name)
		if b.hasVersion {
			mk = fmt.Sprintf("func(v int16) protocolBody { return &%s{Version: %s(v)} }", b.name, b.versionType)
		}
		fmt.Fprintf(&sb, "\t{%q, %d, %v, %v, %s, func() protocolBody { return new(%s) }},\n", b.name, b.maxVersion, b.isResponse, b.hasVersion, mk, b.name)
	}
	sb.WriteString("}\n\n// vSetVersion sets the Version field of bodies that carry one.\nfunc vSetVersion(b protocolBody, v int16) {\n\tswitch x := b.(type) {\n")
	for _, b := range bodies {
		if b.hasVersion {
			fmt.Fprintf(&sb, "\tcase *%s:\n\t\tx.Version = %s(v)\n", b.name, b.versionType)
		}
	}
	sb.WriteString("\t}\n}\n")
	return []byte(sb.String()), len(bodies), nil
}

// ---------- generated type-directed generators (used by the C09 round-trip harnesses) ----------

type fillGen struct {
	fset    *token.FileSet
	types   map[string]ast.Expr // package-level type declarations
	hooks   map[string]bool     // vGenHook_<T> defined by the harness
	done    map[string]bool
	queue   []string
	sb      strings.Builder
	imports map[string]bool
}

func parseTypes(repo string) (*token.FileSet, map[string]ast.Expr, error) {
	fset := token.NewFileSet()
	files, _ := filepath.Glob(filepath.Join(repo, "*.go"))
	sort.Strings(files)
	types := map[string]ast.Expr{}
	for _, f := range files {
		if strings.HasSuffix(f, "_test.go") {
			continue
		}
		src, err := os.ReadFile(f)
		if err != nil {
			return nil, nil, err
		}
		head := string(src[:min(len(src), 400)])
		if strings.Contains(head, "go:build") && strings.Contains(head, "functional") {
			continue
		}
		af, err := parser.ParseFile(fset, f, src, 0)
		if err != nil {
			return nil, nil, err
		}
		for _, d := range af.Decls {
			gd, ok := d.(*ast.GenDecl)
			if !ok || gd.Tok != token.TYPE {
				continue
			}
			for _, sp := range gd.Specs {
				ts := sp.(*ast.TypeSpec)
				types[ts.Name.Name] = ts.Type
			}
		}
	}
	return fset, types, nil
}

func harnessHooks(harnessDir string) map[string]bool {
	hooks := map[string]bool{}
	files, _ := filepath.Glob(filepath.Join(harnessDir, "sarama", "*.go"))
	fset := token.NewFileSet()
	for _, f := range files {
		af, err := parser.ParseFile(fset, f, nil, 0)
		if err != nil {
			continue
		}
		for _, d := range af.Decls {
			if fd, ok := d.(*ast.FuncDecl); ok && fd.Recv == nil && strings.HasPrefix(fd.Name.Name, "vGenHook_") {
				hooks[strings.TrimPrefix(fd.Name.Name, "vGenHook_")] = true
			}
		}
	}
	return hooks
}

var basicGen = map[string]string{
	"int8": "vInt8", "int16": "vInt16", "int32": "vInt32", "int64": "vInt64", "int": "vGenInt",
	"uint8": "vByte", "byte": "vByte", "uint16": "vUint16", "uint32": "vUint32", "uint64": "vUint64",
	"bool": "vBool", "string": "vGenString",
}

// genExpr returns Go code (an expression) producing a value of type e; d is the depth variable name.
func (g *fillGen) genExpr(e ast.Expr, label string) (string, bool) {
	switch t := e.(type) {
	case *ast.Ident:
		if fn, ok := basicGen[t.Name]; ok {
			return fmt.Sprintf("%s(%q)", fn, label), true
		}
		decl, ok := g.types[t.Name]
		if !ok {
			return "", false
		}
		if g.hooks[t.Name] {
			return fmt.Sprintf("(*vGenHook_%s(d-1))", t.Name), true
		}
		switch u := decl.(type) {
		case *ast.StructType:
			g.need(t.Name)
			return fmt.Sprintf("(*vGen_%s(d-1))", t.Name), true
		case *ast.Ident:
			if u.Name == "int" {
				// enumerations declared over int travel as one byte
				return fmt.Sprintf("%s(vInt8(%q))", t.Name, label), true
			}
			if inner, ok := g.genExpr(u, label); ok {
				return fmt.Sprintf("%s(%s)", t.Name, inner), true
			}
		case *ast.ArrayType, *ast.MapType:
			if inner, ok := g.genExpr(u, label); ok {
				return fmt.Sprintf("%s(%s)", t.Name, inner), true
			}
		}
		return "", false
	case *ast.StarExpr:
		if id, ok := t.X.(*ast.Ident); ok {
			if _, isBasic := basicGen[id.Name]; isBasic {
				inner, _ := g.genExpr(id, label)
				return fmt.Sprintf("func() *%s { if vChoose(%q, 2) == 0 { return nil }; x := %s; return &x }()", id.Name, label+".nil", inner), true
			}
			if decl, ok := g.types[id.Name]; ok {
				if g.hooks[id.Name] {
					return fmt.Sprintf("func() *%s { if d <= 0 || vChoose(%q, 2) == 0 { return nil }; return vGenHook_%s(d-1) }()", id.Name, label+".nil", id.Name), true
				}
				if _, isStruct := decl.(*ast.StructType); isStruct {
					g.need(id.Name)
					return fmt.Sprintf("func() *%s { if d <= 0 || vChoose(%q, 2) == 0 { return nil }; return vGen_%s(d-1) }()", id.Name, label+".nil", id.Name), true
				}
			}
		}
		return "", false
	case *ast.ArrayType:
		if t.Len != nil {
			return "", false
		}
		ts := exprString(g.fset, e)
		if id, ok := t.Elt.(*ast.Ident); ok && (id.Name == "byte" || id.Name == "uint8") {
			return fmt.Sprintf("vGenBytes(%q)", label), true
		}
		inner, ok := g.genElem(t.Elt, label+"[]")
		if !ok {
			return "", false
		}
		return fmt.Sprintf("func() %s { n := vGenLen(%q, d); if n < 0 { return nil }; out := make(%s, 0, n); for i := 0; i < n; i++ { out = append(out, %s) }; return out }()", ts, label, ts, inner), true
	case *ast.MapType:
		ts := exprString(g.fset, e)
		k, ok1 := g.genExpr(t.Key, label+".key")
		v, ok2 := g.genElem(t.Value, label+".val")
		if !ok1 || !ok2 {
			return "", false
		}
		return fmt.Sprintf("func() %s { n := vGenLen(%q, d); if n < 0 { return nil }; out := make(%s, n); for i := 0; i < n; i++ { k := %s; if _, dup := out[k]; dup { vAssume(false) }; out[k] = %s }; return out }()", ts, label, ts, k, v), true
	case *ast.SelectorExpr:
		s := exprString(g.fset, e)
		switch s {
		case "time.Duration":
			g.imports["time"] = true
			return fmt.Sprintf("vGenDuration(%q)", label), true
		case "time.Time":
			g.imports["time"] = true
			return fmt.Sprintf("vGenTime(%q)", label), true
		}
		return "", false
	}
	return "", false
}

// genElem is genExpr for elements of collections: pointers are never nil there.
func (g *fillGen) genElem(e ast.Expr, label string) (string, bool) {
	if st, ok := e.(*ast.StarExpr); ok {
		if id, ok := st.X.(*ast.Ident); ok {
			if decl, ok := g.types[id.Name]; ok {
				if g.hooks[id.Name] {
					return fmt.Sprintf("vGenHook_%s(d-1)", id.Name), true
				}
				if _, isStruct := decl.(*ast.StructType); isStruct {
					g.need(id.Name)
					return fmt.Sprintf("vGen_%s(d-1)", id.Name), true
				}
			}
		}
	}
	return g.genExpr(e, label)
}

func (g *fillGen) need(name string) {
	if !g.done[name] {
		g.done[name] = true
		g.queue = append(g.queue, name)
	}
}

func (g *fillGen) emitStruct(name string) {
	st := g.types[name].(*ast.StructType)
	fmt.Fprintf(&g.sb, "func vGen_%s(d int) *%s {\n\tx := &%s{}\n", name, name, name)
	for _, f := range st.Fields.List {
		if len(f.Names) == 0 {
			continue // embedded fields are left zero
		}
		for _, n := range f.Names {
			if n.Name == "_" {
				continue
			}
			code, ok := g.genExpr(f.Type, name+"."+n.Name)
			if !ok {
				fmt.Fprintf(&g.sb, "\t// %s: not generated (%s)\n", n.Name, exprString(g.fset, f.Type))
				continue
			}
			fmt.Fprintf(&g.sb, "\tx.%s = %s\n", n.Name, code)
		}
	}
	fmt.Fprintf(&g.sb, "\treturn x\n}\n\n")
}

func genFillFile(repo, harnessDir string, bodies []bodyInfo) ([]byte, error) {
	fset, types, err := parseTypes(repo)
	if err != nil {
		return nil, err
	}
	g := &fillGen{fset: fset, types: types, hooks: harnessHooks(harnessDir), done: map[string]bool{}, imports: map[string]bool{}}
	for _, b := range bodies {
		if _, ok := types[b.name].(*ast.StructType); ok && !g.hooks[b.name] {
			g.need(b.name)
		}
	}
	for len(g.queue) > 0 {
		n := g.queue[0]
		g.queue = g.queue[1:]
		g.emitStruct(n)
	}
	var out strings.Builder
	out.WriteString("//go:build verif\n\npackage sarama\n\n// Generated on every run from /repo's current source by symgo (engine/gen.go): type-directed\n// generators of arbitrary bounded values, one per struct type reachable from a protocol body.\n\n")
	out.WriteString("var vGenBodies = map[string]func(d int) protocolBody{\n")
	for _, b := range bodies {
		if g.hooks[b.name] {
			fmt.Fprintf(&out, "\t%q: func(d int) protocolBody { return vGenHook_%s(d) },\n", b.name, b.name)
		} else if g.done[b.name] {
			fmt.Fprintf(&out, "\t%q: func(d int) protocolBody { return vGen_%s(d) },\n", b.name, b.name)
		}
	}
	out.WriteString("}\n\n")
	out.WriteString(g.sb.String())
	return []byte(out.String()), nil
}
