package main

// Discovery of protocol bodies from /repo's current source (go/parser), emitted as an overlay
// file so harnesses can enumerate every request/response type and every version gate.

import (
	"fmt"
	"go/ast"
	"go/parser"
	"go/printer"
	"go/token"
	"os"
	"path/filepath"
	"sort"
	"strconv"
	"strings"
)

type bodyInfo struct {
	name       string
	file       string
	maxVersion int
	hasVersion bool // has a field `Version int16`
	isResponse bool
}

func exprString(fset *token.FileSet, e ast.Expr) string {
	var sb strings.Builder
	printer.Fprint(&sb, fset, e)
	return sb.String()
}

func discoverBodies(repo string) ([]bodyInfo, error) {
	fset := token.NewFileSet()
	files, _ := filepath.Glob(filepath.Join(repo, "*.go"))
	sort.Strings(files)
	type fileData struct {
		maxK    int
		structs map[string]*ast.StructType
	}
	methods := map[string]map[string]bool{} // type -> method names
	fileOf := map[string]string{}
	fdata := map[string]*fileData{}
	for _, f := range files {
		if strings.HasSuffix(f, "_test.go") {
			continue
		}
		src, err := os.ReadFile(f)
		if err != nil {
			return nil, err
		}
		if strings.Contains(string(src[:min(len(src), 400)]), "go:build") && strings.Contains(string(src[:min(len(src), 400)]), "functional") {
			continue
		}
		af, err := parser.ParseFile(fset, f, src, 0)
		if err != nil {
			return nil, err
		}
		fd := &fileData{structs: map[string]*ast.StructType{}}
		fdata[f] = fd
		ast.Inspect(af, func(n ast.Node) bool {
			switch x := n.(type) {
			case *ast.FuncDecl:
				if x.Recv != nil && len(x.Recv.List) == 1 {
					t := x.Recv.List[0].Type
					if s, ok := t.(*ast.StarExpr); ok {
						t = s.X
					}
					if id, ok := t.(*ast.Ident); ok {
						if methods[id.Name] == nil {
							methods[id.Name] = map[string]bool{}
						}
						methods[id.Name][x.Name.Name] = true
						fileOf[id.Name] = f
					}
				}
			case *ast.TypeSpec:
				if st, ok := x.Type.(*ast.StructType); ok {
					fd.structs[x.Name.Name] = st
				}
			case *ast.BinaryExpr:
				for _, pair := range [][2]ast.Expr{{x.X, x.Y}, {x.Y, x.X}} {
					lit, ok := pair[1].(*ast.BasicLit)
					if !ok || lit.Kind != token.INT {
						continue
					}
					if strings.Contains(strings.ToLower(exprString(fset, pair[0])), "version") {
						if k, err := strconv.Atoi(lit.Value); err == nil && k > fd.maxK && k < 30 {
							fd.maxK = k
						}
					}
				}
			case *ast.SwitchStmt:
				if x.Tag != nil && strings.Contains(strings.ToLower(exprString(fset, x.Tag)), "version") {
					for _, c := range x.Body.List {
						for _, e := range c.(*ast.CaseClause).List {
							if lit, ok := e.(*ast.BasicLit); ok && lit.Kind == token.INT {
								if k, err := strconv.Atoi(lit.Value); err == nil && k > fd.maxK && k < 30 {
									fd.maxK = k
								}
							}
						}
					}
				}
			}
			return true
		})
	}
	var out []bodyInfo
	for name, ms := range methods {
		if !(ms["requiredVersion"] && ms["encode"] && ms["decode"] && ms["key"] && ms["version"] && ms["headerVersion"]) {
			continue
		}
		f := fileOf[name]
		fd := fdata[f]
		bi := bodyInfo{name: name, file: filepath.Base(f), maxVersion: fd.maxK + 1, isResponse: strings.HasSuffix(name, "Response")}
		if st := fd.structs[name]; st != nil {
			for _, fl := range st.Fields.List {
				for _, n := range fl.Names {
					if n.Name == "Version" {
						if id, ok := fl.Type.(*ast.Ident); ok && id.Name == "int16" {
							bi.hasVersion = true
						}
					}
				}
			}
		}
		out = append(out, bi)
	}
	sort.Slice(out, func(i, j int) bool { return out[i].name < out[j].name })
	return out, nil
}

func genBodiesFile(repo string) ([]byte, int, error) {
	bodies, err := discoverBodies(repo)
	if err != nil {
		return nil, 0, err
	}
	var sb strings.Builder
	sb.WriteString("//go:build verif\n\npackage sarama\n\n// Generated on every run from /repo's current source by symgo (engine/gen.go).\n\n")
	sb.WriteString("type vBodyInfo struct {\n\tname string\n\tmaxVersion int16\n\tisResponse bool\n\tmk func(v int16) protocolBody\n}\n\n")
	sb.WriteString("var vBodies = []vBodyInfo{\n")
	for _, b := range bodies {
		mk := fmt.Sprintf("func(v int16) protocolBody { return new(%s) }", b.name)
		if b.hasVersion {
			mk = fmt.Sprintf("func(v int16) protocolBody { return &%s{Version: v} }", b.name)
		}
		fmt.Fprintf(&sb, "\t{%q, %d, %v, %s},\n", b.name, b.maxVersion, b.isResponse, mk)
	}
	sb.WriteString("}\n")
	return []byte(sb.String()), len(bodies), nil
}
