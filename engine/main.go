package main

import (
	"encoding/json"
	"flag"
	"fmt"
	"os"
	"path/filepath"
	"regexp"
	"runtime"
	"sort"
	"strings"
	"sync"
	"time"

	"golang.org/x/tools/go/ssa"
)

type KnownFinding struct {
	Property string `json:"property"`
	Harness  string `json:"harness"`
	Kind     string `json:"kind"`
	Label    string `json:"label"`
	Site     string `json:"site"` // regexp on the failure site
	Class    string `json:"class,omitempty"` // regexp on the failure's scenario class
	What     string `json:"what"`
	Status   string `json:"status"` // "known" or "fixed"
	Commit   string `json:"commit,omitempty"`
}

type Options struct {
	repo, harnessDir, outDir, verifDir string
	prop, tier, only               string
	jobs                           int
	solver                         string
	timeout                        time.Duration
	maxPaths                       int
	budget                         time.Duration
	trace                          bool
	seed                           int
	native                         bool
	xcheck                         string
	xevery, natSample              int
}

func main() {
	if len(os.Args) < 2 {
		fmt.Fprintln(os.Stderr, "usage: symgo check|list|replay ...")
		os.Exit(2)
	}
	cmd := os.Args[1]
	fs := flag.NewFlagSet(cmd, flag.ExitOnError)
	var o Options
	fs.StringVar(&o.repo, "repo", "/repo", "repository under test")
	fs.StringVar(&o.verifDir, "verif", "/verif", "verification directory")
	fs.StringVar(&o.prop, "prop", "", "property id")
	fs.StringVar(&o.tier, "tier", "quick", "quick|thorough")
	fs.StringVar(&o.only, "only", "", "regexp on harness names")
	fs.IntVar(&o.jobs, "jobs", runtime.NumCPU(), "workers")
	fs.StringVar(&o.solver, "solver", "z3-new", "z3-new|z3|cvc5")
	fs.DurationVar(&o.timeout, "qtimeout", 0, "per-query timeout")
	fs.IntVar(&o.maxPaths, "maxpaths", 0, "path budget per harness")
	fs.DurationVar(&o.budget, "budget", 0, "wall-clock budget for exploration")
	fs.BoolVar(&o.trace, "trace", false, "trace instructions (single worker)")
	fs.BoolVar(&o.native, "native", true, "also replay violations natively with go test -overlay when possible")
	fs.StringVar(&o.xcheck, "xcheck", "", "selftest: comma-separated secondary solvers (cvc5,z3) that re-decide sampled queries")
	fs.IntVar(&o.xevery, "xevery", 1, "selftest: re-decide every n-th query")
	fs.IntVar(&o.natSample, "natsample", 0, "selftest: completed paths per harness whose model is also run natively")
	replayFile := fs.String("file", "", "replay file")
	noEvidence := fs.Bool("noevidence", false, "do not write the evidence file")
	fs.Parse(os.Args[2:])
	o.harnessDir = filepath.Join(o.verifDir, "harness")
	o.outDir = filepath.Join(o.verifDir, "out")
	if s := os.Getenv("VERIF_SEED"); s != "" {
		fmt.Sscan(s, &o.seed)
	}
	if o.timeout == 0 {
		if o.tier == "thorough" {
			o.timeout = 120 * time.Second
		} else {
			o.timeout = 20 * time.Second
		}
	}
	switch cmd {
	case "list":
		p, err := loadProgram(o.repo, o.harnessDir)
		if err != nil {
			fmt.Fprintln(os.Stderr, err)
			os.Exit(2)
		}
		var names []string
		for n := range p.harnesses {
			names = append(names, n)
		}
		sort.Strings(names)
		for _, n := range names {
			fmt.Println(n)
		}
		fmt.Printf("load %.1fs build %.1fs pkgs %d funcs %d\n", p.loadTime.Seconds(), p.buildTime.Seconds(), p.nPkgs, p.nFuncs)
	case "check":
		os.Exit(runCheck(&o, !*noEvidence))
	case "replay":
		os.Exit(runReplay(&o, *replayFile))
	default:
		fmt.Fprintln(os.Stderr, "unknown command", cmd)
		os.Exit(2)
	}
}

func loadKnown(verifDir string) []KnownFinding {
	b, err := os.ReadFile(filepath.Join(verifDir, "known_findings.json"))
	if err != nil {
		return nil
	}
	var kf struct {
		Findings []KnownFinding `json:"findings"`
	}
	if err := json.Unmarshal(b, &kf); err != nil {
		fmt.Fprintln(os.Stderr, "known_findings.json:", err)
		os.Exit(2)
	}
	return kf.Findings
}

func matchKnown(kfs []KnownFinding, f *Failure) *KnownFinding {
	for i := range kfs {
		k := &kfs[i]
		if k.Status != "known" || k.Property != f.Property {
			continue
		}
		if k.Harness != "" && k.Harness != f.Harness {
			continue
		}
		if k.Kind != "" && k.Kind != f.Kind {
			continue
		}
		if k.Label != "" && k.Label != f.Label {
			continue
		}
		if k.Site != "" {
			if ok, _ := regexp.MatchString(k.Site, f.Site); !ok {
				continue
			}
		}
		if k.Class != "" {
			if ok, _ := regexp.MatchString(k.Class, f.Class); !ok {
				continue
			}
		}
		return k
	}
	return nil
}

func runCheck(o *Options, writeEvidence bool) int {
	t0 := time.Now()
	tier := 0
	if o.tier == "thorough" {
		tier = 1
	}
	prog, err := loadProgram(o.repo, o.harnessDir)
	if err != nil {
		fmt.Fprintln(os.Stderr, "BROKEN: load failed:", err)
		return 2
	}
	var hs []*Harness
	var names []string
	for n := range prog.harnesses {
		names = append(names, n)
	}
	sort.Strings(names)
	var re *regexp.Regexp
	if o.only != "" {
		re = regexp.MustCompile(o.only)
	}
	for _, n := range names {
		h := newHarness(n, prog.harnesses[n])
		if o.prop != "" && h.Prop != o.prop {
			continue
		}
		if re != nil && !re.MatchString(n) {
			continue
		}
		// thorough-only harnesses end in _T
		if tier == 0 && strings.HasSuffix(n, "_T") {
			continue
		}
		h.maxPaths = o.maxPaths
		hs = append(hs, h)
	}
	if len(hs) == 0 {
		fmt.Fprintf(os.Stderr, "BROKEN: no harness for property %q\n", o.prop)
		return 2
	}
	pool := &Pool{n: o.jobs, started: time.Now()}
	if o.trace {
		pool.n = 1
	}
	if o.budget > 0 {
		pool.deadline = time.Now().Add(o.budget)
	}
	if o.xcheck != "" {
		pool.xNames = strings.Split(o.xcheck, ",")
	}
	pool.xEvery = o.xevery
	if pool.xEvery < 1 {
		pool.xEvery = 1
	}
	pool.natSample = o.natSample
	pool.kfs = loadKnown(o.verifDir)
	pool.cond = sync.NewCond(&pool.mu)
	for _, h := range hs {
		pool.queue = append(pool.queue, Job{h, nil})
	}
	var wg sync.WaitGroup
	workers := make([]*Worker, pool.n)
	for i := range workers {
		w := &Worker{id: i, prog: prog, pool: pool, tier: tier, solverName: o.solver, timeout: o.timeout, trace: o.trace}
		workers[i] = w
		wg.Add(1)
		go func() {
			defer wg.Done()
			w.run()
		}()
	}
	wg.Wait()
	exploreWall := time.Since(t0)

	// ---- collect, confirm by concrete replay, classify ----
	kfs := loadKnown(o.verifDir)
	xNames := pool.xNames
	pool.xNames = nil // confirmation queries are not cross-checked
	cw := &Worker{id: 99, prog: prog, pool: pool, tier: tier, solverName: o.solver, timeout: o.timeout}
	cw.resetSolver()
	defer cw.solver.Close()
	exit := 0
	var violations, knowns, unconfirmed []*Failure
	broken := []string{}
	for _, h := range hs {
		keys := make([]string, 0, len(h.failures))
		for k := range h.failures {
			keys = append(keys, k)
		}
		sort.Strings(keys)
		for _, k := range keys {
			f := h.failures[k]
			f.Replayed = cw.confirm(h, f)
			if !f.Replayed {
				unconfirmed = append(unconfirmed, f)
				continue
			}
			if kf := matchKnown(kfs, f); kf != nil {
				f.Known = kf.What
				knowns = append(knowns, f)
			} else {
				violations = append(violations, f)
			}
		}
		if h.reach == 0 {
			broken = append(broken, h.Name+": no path reached vReach (vacuous)")
		}
		for lbl, n := range h.covers {
			if n == 0 {
				broken = append(broken, h.Name+": cover witness missing: "+lbl)
			}
		}
		if h.overflow {
			broken = append(broken, h.Name+": exploration incomplete (path/time budget exhausted)")
		}
		for what, n := range h.inconc {
			broken = append(broken, fmt.Sprintf("%s: inconclusive ×%d: %s", h.Name, n, what))
		}
	}
	os.MkdirAll(filepath.Join(o.outDir, o.prop), 0o755)
	if old, _ := filepath.Glob(filepath.Join(o.outDir, o.prop, "*.json")); o.prop != "" {
		for _, f := range old {
			os.Remove(f)
		}
	}
	nativeTried := 0
	seenKnown := map[string]bool{}
	for _, f := range knowns {
		if !seenKnown[f.Known] {
			seenKnown[f.Known] = true
			fmt.Printf("KNOWN-FINDING: property=%s %s\n", f.Property, f.Known)
		}
	}
	for i, f := range violations {
		path := filepath.Join(o.outDir, f.Property, fmt.Sprintf("%s-%d.json", strings.TrimPrefix(f.Harness, "verifHarness_"), i))
		b, _ := json.MarshalIndent(f, "", " ")
		os.WriteFile(path, b, 0o644)
		// additionally replay against the real build when the harness allows it (first few only)
		if nativeTried < 3 && o.native {
			nativeTried++
			ran, rep, note := nativeReplay(o, prog, f, path)
			f.NativeRan, f.NativeReproduced, f.NativeNote = ran, rep, note
			b, _ = json.MarshalIndent(f, "", " ")
			os.WriteFile(path, b, 0o644)
		}
		fmt.Printf("VIOLATION property=%s replay=%s\n", f.Property, path)
		if f.NativeNote != "" {
			fmt.Printf("  native_replay: ran=%v reproduced=%v (%s)\n", f.NativeRan, f.NativeReproduced, f.NativeNote)
		}
		fmt.Printf("  harness=%s kind=%s label=%s site=%s class=%s count=%d\n  detail=%s\n  events=%v\n", f.Harness, f.Kind, f.Label, f.Site, f.Class, f.Count, f.Detail, f.Events)
		exit = 1
	}
	for _, f := range unconfirmed {
		broken = append(broken, fmt.Sprintf("%s: counterexample for %s/%s at %s did not reproduce in concrete replay (engine or stub defect)", f.Harness, f.Kind, f.Label, f.Site))
	}
	// ---- selftest results ----
	var nat *natStats
	if o.natSample > 0 {
		nat = nativeDifferential(o, prog, hs, tier)
		fmt.Printf("SELFTEST native-differential: sampled=%d passed=%d engine-only=%d assumption-failed=%d disagreements=%d (build %.1fs) %s\n",
			nat.Sampled, nat.Passed, nat.EngineOnly, nat.AssumeFail, nat.Disagree, nat.BuildS, nat.Note)
		for _, e := range nat.Examples {
			fmt.Println("  " + e)
		}
		if nat.Disagree != 0 || nat.AssumeFail != 0 {
			broken = append(broken, fmt.Sprintf("selftest: engine and native run disagree on %d sampled paths", nat.Disagree+nat.AssumeFail))
		}
	}
	for _, n := range xNames {
		if xs := pool.xStats[n]; xs != nil {
			fmt.Printf("SELFTEST cross-solver %s: compared=%d agree=%d either-unknown=%d disagree=%d\n", n, xs.Compared, xs.Agree, xs.Unknown, xs.Disagree)
			for _, e := range xs.Examples {
				fmt.Println("  " + e)
			}
			if xs.Disagree > 0 {
				broken = append(broken, fmt.Sprintf("selftest: %d queries decided differently by %s", xs.Disagree, n))
			}
		}
	}
	selftest = map[string]interface{}{}
	if nat != nil {
		selftest["native_differential"] = nat
	}
	if len(xNames) > 0 {
		selftest["cross_solver"] = pool.xStats
		selftest["cross_solver_every"] = pool.xEvery
	}
	sort.Strings(broken)
	for _, b := range broken {
		fmt.Printf("INCONCLUSIVE property=%s %s\n", o.prop, b)
	}
	if exit == 0 && len(broken) > 0 {
		exit = 2
	}
	wall := time.Since(t0)
	if writeEvidence && o.prop != "" && o.only == "" {
		writeEvidenceFile(o, prog, hs, workers, cw, violations, knowns, broken, wall, exploreWall)
	}
	// summary
	tp := 0
	for _, h := range hs {
		tp += h.nPaths
		fmt.Printf("  %-48s paths=%-6d %v asserts=%d fails=%d maxsteps=%d\n", h.Name, h.nPaths, h.paths, sumVals(h.asserts), len(h.failures), h.maxPathSteps)
	}
	q, qs, qu, qk, qw := 0, 0, 0, 0, time.Duration(0)
	for _, w := range append(workers, cw) {
		q += w.qTotal
		qs += w.qSat
		qu += w.qUnsat
		qk += w.qUnknown
		qw += w.qWall
	}
	hits := 0
	for _, w := range workers {
		hits += w.cacheHits
	}
	fmt.Printf("property=%s tier=%s harnesses=%d paths=%d queries=%d (sat %d, unsat %d, unknown %d, model-cache hits %d) solver=%.1fs wall=%.1fs (load %.1fs) exit=%d\n",
		o.prop, o.tier, len(hs), tp, q, qs, qu, qk, hits, qw.Seconds(), wall.Seconds(), (prog.loadTime + prog.buildTime).Seconds(), exit)
	return exit
}

var selftest map[string]interface{}

func sumVals(m map[string]int) int {
	n := 0
	for _, v := range m {
		n += v
	}
	return n
}

// confirm re-runs the failing path with every nondet value fixed to the model (no solver).
func (w *Worker) confirm(h *Harness, f *Failure) bool {
	var prefix []Decision
	for _, d := range f.Path {
		if d.Kind == 'C' || d.Kind == 'S' || d.Kind == 'M' {
			prefix = append(prefix, d)
		}
	}
	model := f.Model
	if model == nil {
		model = map[string]uint64{}
	}
	hh := newHarness(h.Name, h.Fn)
	in := w.newInterp(hh, prefix, model)
	in.runPath()
	for _, g := range in.failures {
		if g.Kind == f.Kind && g.Label == f.Label && g.Site == f.Site && g.Class == f.Class {
			return true
		}
	}
	if f.Kind != "assert" {
		return false
	}
	// oracles that are only meaningful on symbolic terms (wire dependency): re-execute the
	// recorded path symbolically and evaluate the assertion under the recorded model
	hh2 := newHarness(h.Name, h.Fn)
	in2 := w.newInterp(hh2, f.Path, nil)
	in2.confirmModel = model
	in2.runPath()
	for _, g := range in2.failures {
		if g.Kind == f.Kind && g.Label == f.Label && g.Site == f.Site && g.Class == f.Class {
			f.Detail += " (confirmed by symbolic re-execution of the recorded path under the recorded model)"
			return true
		}
	}
	return false
}

func runReplay(o *Options, file string) int {
	b, err := os.ReadFile(file)
	if err != nil {
		fmt.Fprintln(os.Stderr, err)
		return 2
	}
	var f Failure
	if err := json.Unmarshal(b, &f); err != nil {
		fmt.Fprintln(os.Stderr, err)
		return 2
	}
	prog, err := loadProgram(o.repo, o.harnessDir)
	if err != nil {
		fmt.Fprintln(os.Stderr, "BROKEN: load failed:", err)
		return 2
	}
	fn := prog.harnesses[f.Harness]
	if fn == nil {
		fmt.Fprintln(os.Stderr, "no harness", f.Harness)
		return 2
	}
	pool := &Pool{n: 1}
	pool.cond = sync.NewCond(&pool.mu)
	w := &Worker{id: 0, prog: prog, pool: pool, solverName: o.solver, timeout: o.timeout, trace: o.trace}
	w.resetSolver()
	defer w.solver.Close()
	h := newHarness(f.Harness, fn)
	if w.confirm(h, &f) {
		fmt.Printf("VIOLATION property=%s replay=%s\n  reproduced: harness=%s kind=%s label=%s site=%s\n  detail=%s\n", f.Property, file, f.Harness, f.Kind, f.Label, f.Site, f.Detail)
		return 1
	}
	fmt.Println("not reproduced on this tree")
	return 0
}

// ---------- evidence ----------

func writeEvidenceFile(o *Options, prog *Program, hs []*Harness, workers []*Worker, cw *Worker,
	violations, knowns []*Failure, broken []string, wall, exploreWall time.Duration) {
	type hEv struct {
		Name       string         `json:"harness"`
		Paths      int            `json:"paths"`
		ByEnd      map[string]int `json:"paths_by_end"`
		Decisions  map[string]int `json:"decisions_by_kind"`
		Asserts    map[string]int `json:"assertions_discharged"`
		Covers     map[string]int `json:"cover_witnesses"`
		Reach      int            `json:"paths_reaching_end"`
		Steps      int64          `json:"ssa_instructions_executed"`
		Funcs      []string       `json:"functions_encoded"`
		NFuncs     int            `json:"functions_encoded_count"`
		Bounds     map[string]int `json:"bounds"`
		Assumes    []string       `json:"overrides_and_assumptions"`
		Failures   []string       `json:"failures"`
		Complete   bool           `json:"exploration_complete"`
		Notes      map[string]int `json:"notes,omitempty"`
	}
	var hev []hEv
	states, transitions := 0, 0
	var samples []interface{}
	totalAsserts := 0
	allFuncs := map[string]bool{}
	for _, h := range hs {
		e := hEv{Name: h.Name, Paths: h.nPaths, ByEnd: h.paths, Decisions: map[string]int{}, Asserts: h.asserts,
			Covers: h.covers, Reach: h.reach, Steps: h.steps, Bounds: h.bounds, Complete: !h.overflow, Notes: h.notes}
		for k, v := range h.decKinds {
			e.Decisions[string(rune(k))] = v
			transitions += v
		}
		for f := range h.fnCover {
			if f.Pkg != nil && prog.isTarget(f.Pkg) && !isHarnessFn(f) {
				e.Funcs = append(e.Funcs, f.String())
				allFuncs[f.String()] = true
			} else if f.Pkg == nil {
				// closures / wrappers of target functions
				p := f
				for p.Parent() != nil {
					p = p.Parent()
				}
				if p.Pkg != nil && prog.isTarget(p.Pkg) && !isHarnessFn(p) {
					e.Funcs = append(e.Funcs, f.String())
					allFuncs[f.String()] = true
				}
			}
		}
		sort.Strings(e.Funcs)
		e.NFuncs = len(e.Funcs)
		if len(e.Funcs) > 60 {
			e.Funcs = append(e.Funcs[:60], fmt.Sprintf("… and %d more", e.NFuncs-60))
		}
		for a := range h.assumes {
			e.Assumes = append(e.Assumes, a)
		}
		sort.Strings(e.Assumes)
		for _, f := range h.failures {
			e.Failures = append(e.Failures, fmt.Sprintf("%s/%s at %s class=%q ×%d replayed=%v known=%q", f.Kind, f.Label, f.Site, f.Class, f.Count, f.Replayed, truncate(f.Known, 60)))
		}
		sort.Strings(e.Failures)
		states += h.nPaths
		totalAsserts += sumVals(h.asserts)
		for _, s := range h.samples {
			if len(samples) < 12 {
				samples = append(samples, map[string]string{"harness": h.Name, "path": s})
			}
		}
		hev = append(hev, e)
	}
	if len(samples) == 0 {
		samples = append(samples, "no completed path")
	}
	q, qs, qu, qk, qw := 0, 0, 0, 0, time.Duration(0)
	for _, w := range append(workers, cw) {
		q += w.qTotal
		qs += w.qSat
		qu += w.qUnsat
		qk += w.qUnknown
		qw += w.qWall
	}
	if states == 0 {
		states = 1
	}
	if transitions == 0 {
		transitions = 1
	}
	ev := map[string]interface{}{
		"property_id": o.prop,
		"tier":        o.tier,
		"seed":        o.seed,
		"level":       "model_checking",
		"wall_s":      wall.Seconds(),
		"violations":  len(violations),
		"coverage": map[string]interface{}{
			"states":                        states,
			"transitions":                   transitions,
			"traces_validated_against_impl": len(violations) + len(knowns),
			"samples":                       samples,
			"evaluations":                   states,
			"distinct_nontrivial":           states,
			"rule":                          "one evaluation = one explored symbolic path of a harness (distinct decision vector over real go/ssa code); states = symbolic paths, transitions = recorded decisions (B branch both-feasible, F forced branch, Z concretisation, C harness choice, S scheduler, M map order); each path stands for all scalar values satisfying its path condition, decided by the SMT solver",
			"exhaustive":                    len(broken) == 0,
			"explanation":                   "bounded symbolic execution of go/ssa of /repo's working tree; every assertion is an SMT query (QF_BV) under the path condition; unsat = holds for every value on the path",
			"harnesses":                     hev,
			"functions_encoded_total":       len(allFuncs),
			"solver":                        map[string]interface{}{"primary": o.solver, "queries": q, "sat": qs, "unsat": qu, "unknown": qk, "solver_wall_s": qw.Seconds(), "per_query_timeout_s": o.timeout.Seconds()},
			"assertions_discharged":         totalAsserts,
			"known_findings_reported":       len(knowns),
			"inconclusive":                  broken,
			"load":                          map[string]interface{}{"packages": prog.nPkgs, "functions": prog.nFuncs, "load_s": prog.loadTime.Seconds(), "ssa_build_s": prog.buildTime.Seconds()},
			"explore_wall_s":                exploreWall.Seconds(),
			"workers":                       len(workers),
			"selftest":                      selftest,
		},
		"assumptions": evidenceAssumptions(hs),
	}
	os.MkdirAll(filepath.Join(o.verifDir, "evidence"), 0o755)
	b, _ := json.MarshalIndent(ev, "", " ")
	os.WriteFile(filepath.Join(o.verifDir, "evidence", o.prop+".json"), b, 0o644)
}

func evidenceAssumptions(hs []*Harness) []string {
	base := []string{
		"go/ssa (x/tools v0.29.0) lowers the current /repo source faithfully; symgo's instruction semantics match the Go spec (validated, not proved: every reported counterexample is re-run concretely and, where the harness allows, natively; with -natsample/-xcheck sampled completed paths are re-run against the real build and sampled queries re-decided by cvc5/z3 4.8 - see coverage.selftest when enabled)",
		"environment stubs (harness/sarama/vstubs.go): fmt/errors.Is/sort.Slice re-implemented in Go; go-metrics objects are no-ops; compress/decompress are an axiomatised inverse pair; crc32 is computed natively on concrete bytes and is an uninterpreted, functionally consistent 32-bit value on symbolic bytes; time is a virtual clock, timers fire as scheduler events",
		"bounds: loops, recursion, steps, collection sizes and (for concurrent harnesses) delay-bounded schedules as listed per harness; nothing is claimed outside them",
		"data-race freedom of unsynchronised state between visible operations (channel ops, sync, atomics, go) is assumed for concurrent harnesses",
	}
	seen := map[string]bool{}
	for _, h := range hs {
		for a := range h.assumes {
			if !seen[a] {
				seen[a] = true
				base = append(base, h.Name+": "+a)
			}
		}
	}
	return base
}

var _ = ssa.BuilderMode(0)
