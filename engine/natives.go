package main

// Engine-native models of sync, sync/atomic, time, math/rand, hash/crc32, log, runtime.

import (
	"fmt"
	"go/types"
	"hash/crc32"
	"math"
	"regexp"
	"strconv"
	"strings"

	"golang.org/x/tools/go/ssa"
)

var nativeTable = map[string]nativeFn{}

// visibleNatives are scheduling points.
var visibleNatives = map[string]bool{}

func regNative(name string, visible bool, f nativeFn) {
	nativeTable[name] = f
	if visible {
		visibleNatives[name] = true
	}
}

func (in *Interp) fieldIdx(t types.Type, name string) int {
	st := t.Underlying().(*types.Struct)
	for i := 0; i < st.NumFields(); i++ {
		if st.Field(i).Name() == name {
			return i
		}
	}
	panic("fieldIdx: no field " + name + " in " + t.String())
}

// subField returns a pointer to the (possibly nested) field named by names, starting at a
// pointer to a value of named type t.
func (in *Interp) subField(p Pointer, t types.Type, names ...string) Pointer {
	for _, n := range names {
		st := t.Underlying().(*types.Struct)
		i := in.fieldIdx(t, n)
		p = p.sub(i)
		t = st.Field(i).Type()
	}
	return p
}

func (in *Interp) recvType(call ssa.Instruction, fn string) types.Type {
	return in.prog.typeByName(fn)
}

func (in *Interp) loadInt(th *Thread, p Pointer) int64 {
	v := in.load(th, p).(*Term)
	if !v.IsConst() {
		in.fail("unsupported", "symbolic value in sync object")
	}
	return v.S()
}

func (in *Interp) storeInt(th *Thread, p Pointer, w uint8, v int64) {
	in.store(th, p, in.st.Const(w, uint64(v)))
}

func init() {
	// ---------- sync.Mutex ----------
	regNative("(*sync.Mutex).Lock", true, func(in *Interp, th *Thread, fr *Frame, args []Value, call ssa.Instruction) (Value, ctl) {
		p := in.subField(args[0].(Pointer), in.prog.typeByName("sync.Mutex"), "state")
		if in.loadInt(th, p) == 0 {
			in.storeInt(th, p, 32, 1)
			return nil, ctlNext
		}
		in.block(th, "Mutex.Lock")
		th.cond = func() bool { return in.loadInt(th, p) == 0 }
		return nil, ctlBlock
	})
	regNative("(*sync.Mutex).TryLock", true, func(in *Interp, th *Thread, fr *Frame, args []Value, call ssa.Instruction) (Value, ctl) {
		p := in.subField(args[0].(Pointer), in.prog.typeByName("sync.Mutex"), "state")
		if in.loadInt(th, p) == 0 {
			in.storeInt(th, p, 32, 1)
			return in.st.tt, ctlNext
		}
		return in.st.ff, ctlNext
	})
	regNative("(*sync.Mutex).Unlock", true, func(in *Interp, th *Thread, fr *Frame, args []Value, call ssa.Instruction) (Value, ctl) {
		p := in.subField(args[0].(Pointer), in.prog.typeByName("sync.Mutex"), "state")
		if in.loadInt(th, p) == 0 {
			in.fatal(th, "sync: unlock of unlocked mutex")
		}
		in.storeInt(th, p, 32, 0)
		return nil, ctlNext
	})
	// ---------- sync.RWMutex ----------
	rw := func(in *Interp, a Value) (w, r Pointer) {
		t := in.prog.typeByName("sync.RWMutex")
		w = in.subField(a.(Pointer), t, "w", "state")
		r = in.subField(a.(Pointer), t, "readerCount", "v")
		return
	}
	regNative("(*sync.RWMutex).Lock", true, func(in *Interp, th *Thread, fr *Frame, args []Value, call ssa.Instruction) (Value, ctl) {
		w, r := rw(in, args[0])
		if in.loadInt(th, w) == 0 && in.loadInt(th, r) == 0 {
			in.storeInt(th, w, 32, 1)
			return nil, ctlNext
		}
		in.block(th, "RWMutex.Lock")
		th.cond = func() bool { return in.loadInt(th, w) == 0 && in.loadInt(th, r) == 0 }
		return nil, ctlBlock
	})
	regNative("(*sync.RWMutex).Unlock", true, func(in *Interp, th *Thread, fr *Frame, args []Value, call ssa.Instruction) (Value, ctl) {
		w, _ := rw(in, args[0])
		if in.loadInt(th, w) == 0 {
			in.fatal(th, "sync: Unlock of unlocked RWMutex")
		}
		in.storeInt(th, w, 32, 0)
		return nil, ctlNext
	})
	regNative("(*sync.RWMutex).RLock", true, func(in *Interp, th *Thread, fr *Frame, args []Value, call ssa.Instruction) (Value, ctl) {
		w, r := rw(in, args[0])
		if in.loadInt(th, w) == 0 {
			in.storeInt(th, r, 32, in.loadInt(th, r)+1)
			return nil, ctlNext
		}
		in.block(th, "RWMutex.RLock")
		th.cond = func() bool { return in.loadInt(th, w) == 0 }
		return nil, ctlBlock
	})
	regNative("(*sync.RWMutex).RUnlock", true, func(in *Interp, th *Thread, fr *Frame, args []Value, call ssa.Instruction) (Value, ctl) {
		_, r := rw(in, args[0])
		n := in.loadInt(th, r)
		if n <= 0 {
			in.fatal(th, "sync: RUnlock of unlocked RWMutex")
		}
		in.storeInt(th, r, 32, n-1)
		return nil, ctlNext
	})
	// ---------- sync.WaitGroup ----------
	wgc := func(in *Interp, a Value) Pointer {
		return in.subField(a.(Pointer), in.prog.typeByName("sync.WaitGroup"), "state", "v")
	}
	wgAdd := func(in *Interp, th *Thread, p Pointer, d int64) {
		n := in.loadInt(th, p) + d
		if n < 0 {
			in.panicRT(th, "sync: negative WaitGroup counter")
		}
		in.storeInt(th, p, 64, n)
	}
	regNative("(*sync.WaitGroup).Add", true, func(in *Interp, th *Thread, fr *Frame, args []Value, call ssa.Instruction) (Value, ctl) {
		d := in.concInt(th, args[1].(*Term), types.Typ[types.Int], "wg.Add")
		wgAdd(in, th, wgc(in, args[0]), d)
		return nil, ctlNext
	})
	regNative("(*sync.WaitGroup).Done", true, func(in *Interp, th *Thread, fr *Frame, args []Value, call ssa.Instruction) (Value, ctl) {
		wgAdd(in, th, wgc(in, args[0]), -1)
		return nil, ctlNext
	})
	regNative("(*sync.WaitGroup).Wait", true, func(in *Interp, th *Thread, fr *Frame, args []Value, call ssa.Instruction) (Value, ctl) {
		p := wgc(in, args[0])
		if in.loadInt(th, p) == 0 {
			return nil, ctlNext
		}
		in.block(th, "WaitGroup.Wait")
		th.cond = func() bool { return in.loadInt(th, p) == 0 }
		return nil, ctlBlock
	})
	// ---------- sync.Once ----------
	regNative("(*sync.Once).Do", true, func(in *Interp, th *Thread, fr *Frame, args []Value, call ssa.Instruction) (Value, ctl) {
		t := in.prog.typeByName("sync.Once")
		done := in.subField(args[0].(Pointer), t, "done", "v")
		busy := in.subField(args[0].(Pointer), t, "m", "state")
		if in.loadInt(th, done) != 0 {
			return nil, ctlNext
		}
		if in.loadInt(th, busy) != 0 {
			in.block(th, "Once.Do")
			th.cond = func() bool { return in.loadInt(th, done) != 0 }
			return nil, ctlBlock
		}
		in.storeInt(th, busy, 32, 1)
		f := args[1].(*Closure)
		in.invokeFn(th, fr, f.fn, nil, f.env, nil, false)
		nf := th.top
		nf.onReturn = func(Value) bool {
			in.storeInt(th, done, 32, 1)
			in.storeInt(th, busy, 32, 0)
			if call != nil {
				fr.pc++
			}
			return true
		}
		return nil, ctlTaken
	})
	// ---------- sync.Pool ----------
	regNative("(*sync.Pool).Get", false, func(in *Interp, th *Thread, fr *Frame, args []Value, call ssa.Instruction) (Value, ctl) {
		t := in.prog.typeByName("sync.Pool")
		nf := in.load(th, in.subField(args[0].(Pointer), t, "New"))
		if c, ok := nf.(*Closure); ok && c != nil {
			in.invokeFn(th, fr, c.fn, nil, c.env, call, false)
			return nil, ctlTaken
		}
		return Iface{}, ctlNext
	})
	regNative("(*sync.Pool).Put", false, func(in *Interp, th *Thread, fr *Frame, args []Value, call ssa.Instruction) (Value, ctl) {
		return nil, ctlNext
	})
	// ---------- sync/atomic ----------
	for _, w := range []struct {
		n string
		w uint8
	}{{"Int32", 32}, {"Int64", 64}, {"Uint32", 32}, {"Uint64", 64}, {"Uintptr", 64}} {
		w := w
		regNative("sync/atomic.Load"+w.n, true, func(in *Interp, th *Thread, fr *Frame, args []Value, call ssa.Instruction) (Value, ctl) {
			return in.load(th, args[0].(Pointer)), ctlNext
		})
		regNative("sync/atomic.Store"+w.n, true, func(in *Interp, th *Thread, fr *Frame, args []Value, call ssa.Instruction) (Value, ctl) {
			in.store(th, args[0].(Pointer), args[1])
			return nil, ctlNext
		})
		regNative("sync/atomic.Add"+w.n, true, func(in *Interp, th *Thread, fr *Frame, args []Value, call ssa.Instruction) (Value, ctl) {
			v := in.st.Bin(OpAdd, in.load(th, args[0].(Pointer)).(*Term), args[1].(*Term))
			in.store(th, args[0].(Pointer), v)
			return v, ctlNext
		})
		regNative("sync/atomic.Swap"+w.n, true, func(in *Interp, th *Thread, fr *Frame, args []Value, call ssa.Instruction) (Value, ctl) {
			old := in.load(th, args[0].(Pointer))
			in.store(th, args[0].(Pointer), args[1])
			return old, ctlNext
		})
		regNative("sync/atomic.CompareAndSwap"+w.n, true, func(in *Interp, th *Thread, fr *Frame, args []Value, call ssa.Instruction) (Value, ctl) {
			cur := in.load(th, args[0].(Pointer)).(*Term)
			eq := in.st.Eq(cur, args[1].(*Term))
			var ok bool
			if eq.IsConst() {
				ok = eq.k != 0
			} else {
				ok = in.branch(th, eq, "cas")
			}
			if ok {
				in.store(th, args[0].(Pointer), args[2])
			}
			return in.st.Bool(ok), ctlNext
		})
		// typed atomics: atomic.Int32 etc. have a field v
		tn := "sync/atomic." + w.n
		regNative("(*"+tn+").Load", true, func(in *Interp, th *Thread, fr *Frame, args []Value, call ssa.Instruction) (Value, ctl) {
			return in.load(th, in.subField(args[0].(Pointer), in.prog.typeByName(tn), "v")), ctlNext
		})
		regNative("(*"+tn+").Store", true, func(in *Interp, th *Thread, fr *Frame, args []Value, call ssa.Instruction) (Value, ctl) {
			in.store(th, in.subField(args[0].(Pointer), in.prog.typeByName(tn), "v"), args[1])
			return nil, ctlNext
		})
		regNative("(*"+tn+").Add", true, func(in *Interp, th *Thread, fr *Frame, args []Value, call ssa.Instruction) (Value, ctl) {
			p := in.subField(args[0].(Pointer), in.prog.typeByName(tn), "v")
			v := in.st.Bin(OpAdd, in.load(th, p).(*Term), args[1].(*Term))
			in.store(th, p, v)
			return v, ctlNext
		})
		regNative("(*"+tn+").CompareAndSwap", true, func(in *Interp, th *Thread, fr *Frame, args []Value, call ssa.Instruction) (Value, ctl) {
			p := in.subField(args[0].(Pointer), in.prog.typeByName(tn), "v")
			cur := in.load(th, p).(*Term)
			eq := in.st.Eq(cur, args[1].(*Term))
			var ok bool
			if eq.IsConst() {
				ok = eq.k != 0
			} else {
				ok = in.branch(th, eq, "cas")
			}
			if ok {
				in.store(th, p, args[2])
			}
			return in.st.Bool(ok), ctlNext
		})
	}
	regNative("(*sync/atomic.Bool).Load", true, func(in *Interp, th *Thread, fr *Frame, args []Value, call ssa.Instruction) (Value, ctl) {
		v := in.load(th, in.subField(args[0].(Pointer), in.prog.typeByName("sync/atomic.Bool"), "v")).(*Term)
		return in.st.Not(in.st.Eq(v, in.st.Const(32, 0))), ctlNext
	})
	regNative("(*sync/atomic.Bool).Store", true, func(in *Interp, th *Thread, fr *Frame, args []Value, call ssa.Instruction) (Value, ctl) {
		b := args[1].(*Term)
		in.store(th, in.subField(args[0].(Pointer), in.prog.typeByName("sync/atomic.Bool"), "v"), in.st.Ite(b, in.st.Const(32, 1), in.st.Const(32, 0)))
		return nil, ctlNext
	})
	// atomic.Value: keep the interface value in field v
	regNative("(*sync/atomic.Value).Load", true, func(in *Interp, th *Thread, fr *Frame, args []Value, call ssa.Instruction) (Value, ctl) {
		return in.load(th, in.subField(args[0].(Pointer), in.prog.typeByName("sync/atomic.Value"), "v")), ctlNext
	})
	regNative("(*sync/atomic.Value).Store", true, func(in *Interp, th *Thread, fr *Frame, args []Value, call ssa.Instruction) (Value, ctl) {
		in.store(th, in.subField(args[0].(Pointer), in.prog.typeByName("sync/atomic.Value"), "v"), args[1])
		return nil, ctlNext
	})

	// ---------- time ----------
	regNative("time.Now", false, func(in *Interp, th *Thread, fr *Frame, args []Value, call ssa.Instruction) (Value, ctl) {
		in.now += 1000
		return in.timeValue(in.now), ctlNext
	})
	regNative("time.Sleep", true, func(in *Interp, th *Thread, fr *Frame, args []Value, call ssa.Instruction) (Value, ctl) {
		d := args[0].(*Term)
		if d.IsConst() && d.S() > 0 {
			in.now += d.S()
		}
		return nil, ctlNext
	})
	regNative("runtime.Gosched", true, func(in *Interp, th *Thread, fr *Frame, args []Value, call ssa.Instruction) (Value, ctl) {
		return nil, ctlNext
	})
	mkTimer := func(in *Interp, th *Thread, d *Term, period bool, tname string, fn Value) *Timer {
		dur := int64(1)
		if d.IsConst() {
			dur = d.S()
		} else {
			dur = int64(in.concretize(th, d, "timer duration"))
		}
		if dur < 0 {
			dur = 0
		}
		t := &Timer{id: len(in.timers), deadline: in.now + dur, active: true, fn: fn}
		if period {
			t.period = dur
			if dur <= 0 {
				in.panicRT(th, "non-positive interval for NewTicker")
			}
		}
		if fn == nil {
			t.ch = in.newChan(1)
		}
		in.timers = append(in.timers, t)
		// allocate the time.Timer / time.Ticker object with field C
		typ := in.prog.typeByName(tname)
		obj := in.zero(typ).(*Agg)
		if fn == nil {
			obj.v[in.fieldIdx(typ, "C")] = t.ch
		}
		t.cell = in.newCell(obj, tname)
		in.timerByCell[t.cell] = t
		return t
	}
	regNative("time.NewTimer", false, func(in *Interp, th *Thread, fr *Frame, args []Value, call ssa.Instruction) (Value, ctl) {
		t := mkTimer(in, th, args[0].(*Term), false, "time.Timer", nil)
		return Pointer{c: t.cell}, ctlNext
	})
	regNative("time.After", false, func(in *Interp, th *Thread, fr *Frame, args []Value, call ssa.Instruction) (Value, ctl) {
		t := mkTimer(in, th, args[0].(*Term), false, "time.Timer", nil)
		return t.ch, ctlNext
	})
	regNative("time.AfterFunc", false, func(in *Interp, th *Thread, fr *Frame, args []Value, call ssa.Instruction) (Value, ctl) {
		t := mkTimer(in, th, args[0].(*Term), false, "time.Timer", args[1])
		return Pointer{c: t.cell}, ctlNext
	})
	regNative("time.NewTicker", false, func(in *Interp, th *Thread, fr *Frame, args []Value, call ssa.Instruction) (Value, ctl) {
		t := mkTimer(in, th, args[0].(*Term), true, "time.Ticker", nil)
		return Pointer{c: t.cell}, ctlNext
	})
	regNative("time.Tick", false, func(in *Interp, th *Thread, fr *Frame, args []Value, call ssa.Instruction) (Value, ctl) {
		t := mkTimer(in, th, args[0].(*Term), true, "time.Ticker", nil)
		return t.ch, ctlNext
	})
	stop := func(in *Interp, th *Thread, fr *Frame, args []Value, call ssa.Instruction) (Value, ctl) {
		p := args[0].(Pointer)
		if p.c == nil {
			in.panicRT(th, "nil timer")
		}
		t := in.timerByCell[p.c]
		if t == nil {
			in.panicRT(th, "time: Stop called on uninitialized Timer")
		}
		was := t.active
		t.active = false
		return in.st.Bool(was), ctlNext
	}
	regNative("(*time.Timer).Stop", true, stop)
	regNative("(*time.Ticker).Stop", true, func(in *Interp, th *Thread, fr *Frame, args []Value, call ssa.Instruction) (Value, ctl) {
		stop(in, th, fr, args, call)
		return nil, ctlNext
	})
	reset := func(in *Interp, th *Thread, fr *Frame, args []Value, call ssa.Instruction) (Value, ctl) {
		p := args[0].(Pointer)
		t := in.timerByCell[p.c]
		if t == nil {
			in.panicRT(th, "time: Reset called on uninitialized Timer")
		}
		was := t.active
		d := args[1].(*Term)
		dur := int64(1)
		if d.IsConst() {
			dur = d.S()
		}
		t.deadline = in.now + dur
		if t.period > 0 {
			t.period = dur
		}
		t.active = true
		return in.st.Bool(was), ctlNext
	}
	regNative("(*time.Timer).Reset", true, reset)
	regNative("(*time.Ticker).Reset", true, func(in *Interp, th *Thread, fr *Frame, args []Value, call ssa.Instruction) (Value, ctl) {
		reset(in, th, fr, args, call)
		return nil, ctlNext
	})

	// ---------- math/rand ----------
	regNative("math/rand.NewSource", false, func(in *Interp, th *Thread, fr *Frame, args []Value, call ssa.Instruction) (Value, ctl) {
		return Iface{}, ctlNext
	})
	regNative("math/rand.New", false, func(in *Interp, th *Thread, fr *Frame, args []Value, call ssa.Instruction) (Value, ctl) {
		t := in.prog.typeByName("math/rand.Rand")
		return Pointer{c: in.newCell(in.zero(t), "rand.Rand")}, ctlNext
	})
	intn := func(w uint8, argIdx int) nativeFn {
		return func(in *Interp, th *Thread, fr *Frame, args []Value, call ssa.Instruction) (Value, ctl) {
			n := args[argIdx].(*Term)
			pos := in.st.Cmp(OpSlt, in.st.Const(w, 0), n)
			if pos.IsConst() {
				if pos.k == 0 {
					in.panicRT(th, "invalid argument to Intn")
				}
			} else if !in.branch(th, pos, "rand-n") {
				in.panicRT(th, "invalid argument to Intn")
			}
			r := in.freshVar(w, "rand")
			in.assume(th, in.st.And(in.st.Cmp(OpSle, in.st.Const(w, 0), r), in.st.Cmp(OpSlt, r, n)))
			return r, ctlNext
		}
	}
	regNative("(*math/rand.Rand).Intn", false, intn(64, 1))
	regNative("(*math/rand.Rand).Int31n", false, intn(32, 1))
	regNative("(*math/rand.Rand).Int63n", false, intn(64, 1))
	regNative("math/rand.Intn", false, intn(64, 0))
	regNative("math/rand.Int31n", false, intn(32, 0))
	regNative("math/rand.Int63n", false, intn(64, 0))
	regNative("math/rand.Int63", false, func(in *Interp, th *Thread, fr *Frame, args []Value, call ssa.Instruction) (Value, ctl) {
		r := in.freshVar(64, "rand")
		in.assume(th, in.st.Cmp(OpSle, in.st.Const(64, 0), r))
		return r, ctlNext
	})
	regNative("(*math/rand.Rand).Int63", false, nativeTable["math/rand.Int63"])
	regNative("math/rand.Float64", false, func(in *Interp, th *Thread, fr *Frame, args []Value, call ssa.Instruction) (Value, ctl) {
		return Float{0.5}, ctlNext
	})
	regNative("(*math/rand.Rand).Float64", false, nativeTable["math/rand.Float64"])
	regNative("math/rand.Seed", false, func(in *Interp, th *Thread, fr *Frame, args []Value, call ssa.Instruction) (Value, ctl) {
		return nil, ctlNext
	})

	// ---------- hash/crc32 ----------
	regNative("hash/crc32.MakeTable", false, func(in *Interp, th *Thread, fr *Frame, args []Value, call ssa.Instruction) (Value, ctl) {
		poly := args[0].(*Term)
		if !poly.IsConst() {
			in.fail("unsupported", "symbolic crc polynomial")
		}
		return Pointer{c: in.crcTable(uint32(poly.k))}, ctlNext
	})
	regNative("hash/crc32.Update", false, func(in *Interp, th *Thread, fr *Frame, args []Value, call ssa.Instruction) (Value, ctl) {
		return in.crcUpdate(th, args[0].(*Term), args[1].(Pointer), args[2].(Slice)), ctlNext
	})
	regNative("hash/crc32.Checksum", false, func(in *Interp, th *Thread, fr *Frame, args []Value, call ssa.Instruction) (Value, ctl) {
		return in.crcUpdate(th, in.st.Const(32, 0), args[1].(Pointer), args[0].(Slice)), ctlNext
	})
	regNative("hash/crc32.ChecksumIEEE", false, func(in *Interp, th *Thread, fr *Frame, args []Value, call ssa.Instruction) (Value, ctl) {
		return in.crcUpdate(th, in.st.Const(32, 0), Pointer{c: in.crcTable(crc32.IEEE)}, args[0].(Slice)), ctlNext
	})

	// ---------- log ----------
	regNative("log.New", false, func(in *Interp, th *Thread, fr *Frame, args []Value, call ssa.Instruction) (Value, ctl) {
		return Pointer{}, ctlNext
	})
	for _, m := range []string{"Print", "Printf", "Println", "Fatal", "Fatalf", "Fatalln", "Panic", "Panicf", "Panicln", "Output", "SetOutput", "SetFlags", "SetPrefix"} {
		regNative("(*log.Logger)."+m, false, func(in *Interp, th *Thread, fr *Frame, args []Value, call ssa.Instruction) (Value, ctl) {
			return nil, ctlNext
		})
		regNative("log."+m, false, func(in *Interp, th *Thread, fr *Frame, args []Value, call ssa.Instruction) (Value, ctl) {
			return nil, ctlNext
		})
	}
	regNative("regexp.MustCompile", false, func(in *Interp, th *Thread, fr *Frame, args []Value, call ssa.Instruction) (Value, ctl) {
		c := in.newCell(in.zero(in.prog.typeByName("regexp.Regexp")), "regexp")
		in.userState[fmt.Sprintf("regexp:%d", c.id)] = strArg(args[0])
		return Pointer{c: c}, ctlNext
	})
	regNative("(*regexp.Regexp).MatchString", false, func(in *Interp, th *Thread, fr *Frame, args []Value, call ssa.Instruction) (Value, ctl) {
		p := args[0].(Pointer)
		pat, _ := in.userState[fmt.Sprintf("regexp:%d", p.c.id)].(string)
		s, ok := args[1].(string)
		if !ok {
			in.fail("unsupported", "regexp match on symbolic string")
		}
		re, err := regexp.Compile(pat)
		if err != nil {
			in.fail("unsupported", "regexp: "+err.Error())
		}
		return in.st.Bool(re.MatchString(s)), ctlNext
	})
	regNative("github.com/klauspost/compress/zstd.NewReader", false, func(in *Interp, th *Thread, fr *Frame, args []Value, call ssa.Instruction) (Value, ctl) {
		return Tuple{Pointer{}, Iface{}}, ctlNext
	})
	regNative("github.com/klauspost/compress/zstd.NewWriter", false, func(in *Interp, th *Thread, fr *Frame, args []Value, call ssa.Instruction) (Value, ctl) {
		return Tuple{Pointer{}, Iface{}}, ctlNext
	})
	regNative("github.com/klauspost/compress/zstd.WithZeroFrames", false, func(in *Interp, th *Thread, fr *Frame, args []Value, call ssa.Instruction) (Value, ctl) {
		return (*Closure)(nil), ctlNext
	})
	regNative("internal/stringslite.Clone", false, func(in *Interp, th *Thread, fr *Frame, args []Value, call ssa.Instruction) (Value, ctl) {
		return args[0], ctlNext
	})
	regNative("strings.Clone", false, func(in *Interp, th *Thread, fr *Frame, args []Value, call ssa.Instruction) (Value, ctl) {
		return args[0], ctlNext
	})
	for _, mf := range []struct {
		n string
		f func(float64) float64
	}{{"Floor", math.Floor}, {"Ceil", math.Ceil}, {"Trunc", math.Trunc}, {"Sqrt", math.Sqrt}, {"Abs", math.Abs}, {"Log", math.Log}, {"Exp", math.Exp}} {
		mf := mf
		regNative("math."+mf.n, false, func(in *Interp, th *Thread, fr *Frame, args []Value, call ssa.Instruction) (Value, ctl) {
			return Float{mf.f(args[0].(Float).f)}, ctlNext
		})
	}
	regNative("runtime/debug.Stack", false, func(in *Interp, th *Thread, fr *Frame, args []Value, call ssa.Instruction) (Value, ctl) {
		return Slice{}, ctlNext
	})
	regNative("runtime.GC", false, func(in *Interp, th *Thread, fr *Frame, args []Value, call ssa.Instruction) (Value, ctl) {
		return nil, ctlNext
	})
	regNative("runtime.KeepAlive", false, func(in *Interp, th *Thread, fr *Frame, args []Value, call ssa.Instruction) (Value, ctl) {
		return nil, ctlNext
	})
	regNative("runtime.SetFinalizer", false, func(in *Interp, th *Thread, fr *Frame, args []Value, call ssa.Instruction) (Value, ctl) {
		return nil, ctlNext
	})
	// bytealg (assembly on amd64)
	regNative("internal/bytealg.IndexByteString", false, func(in *Interp, th *Thread, fr *Frame, args []Value, call ssa.Instruction) (Value, ctl) {
		return in.indexByte(th, in.strBytes(args[0]), args[1].(*Term)), ctlNext
	})
	regNative("internal/bytealg.IndexByte", false, func(in *Interp, th *Thread, fr *Frame, args []Value, call ssa.Instruction) (Value, ctl) {
		return in.indexByte(th, in.sliceTerms(args[0].(Slice)), args[1].(*Term)), ctlNext
	})
	regNative("internal/bytealg.CountString", false, func(in *Interp, th *Thread, fr *Frame, args []Value, call ssa.Instruction) (Value, ctl) {
		return in.countByte(th, in.strBytes(args[0]), args[1].(*Term)), ctlNext
	})
	regNative("internal/bytealg.Count", false, func(in *Interp, th *Thread, fr *Frame, args []Value, call ssa.Instruction) (Value, ctl) {
		return in.countByte(th, in.sliceTerms(args[0].(Slice)), args[1].(*Term)), ctlNext
	})
	regNative("internal/bytealg.Equal", false, func(in *Interp, th *Thread, fr *Frame, args []Value, call ssa.Instruction) (Value, ctl) {
		a, b := in.sliceTerms(args[0].(Slice)), in.sliceTerms(args[1].(Slice))
		return in.strEq(&SymStr{a}, &SymStr{b}), ctlNext
	})
	regNative("bytes.Equal", false, nativeTable["internal/bytealg.Equal"])
	regNative("internal/bytealg.IndexString", false, func(in *Interp, th *Thread, fr *Frame, args []Value, call ssa.Instruction) (Value, ctl) {
		a, aok := args[0].(string)
		b, bok := args[1].(string)
		if !aok || !bok {
			in.fail("unsupported", "bytealg.IndexString on symbolic strings")
		}
		return in.st.Const(64, uint64(int64(strings.Index(a, b)))), ctlNext
	})
	cmpStr := func(in *Interp, th *Thread, fr *Frame, args []Value, call ssa.Instruction) (Value, ctl) {
		if a, ok := args[0].(string); ok {
			if b, ok := args[1].(string); ok {
				return in.st.Const(64, uint64(int64(strings.Compare(a, b)))), ctlNext
			}
		}
		lt := in.strLess(args[0], args[1])
		eq := in.strEq(args[0], args[1])
		return in.st.Ite(eq, in.st.Const(64, 0), in.st.Ite(lt, in.st.Const(64, ^uint64(0)), in.st.Const(64, 1))), ctlNext
	}
	regNative("internal/bytealg.CompareString", false, cmpStr)
	regNative("strings.Compare", false, cmpStr)
	regNative("internal/bytealg.Compare", false, func(in *Interp, th *Thread, fr *Frame, args []Value, call ssa.Instruction) (Value, ctl) {
		a, b := &SymStr{in.sliceTerms(args[0].(Slice))}, &SymStr{in.sliceTerms(args[1].(Slice))}
		lt := in.strLess(a, b)
		eq := in.strEq(a, b)
		return in.st.Ite(eq, in.st.Const(64, 0), in.st.Ite(lt, in.st.Const(64, ^uint64(0)), in.st.Const(64, 1))), ctlNext
	})
}

func (in *Interp) sliceTerms(s Slice) []*Term {
	es := in.sliceElems(s)
	out := make([]*Term, len(es))
	for i, e := range es {
		out[i] = e.(*Term)
	}
	return out
}

func (in *Interp) indexByte(th *Thread, bs []*Term, c *Term) Value {
	for i, b := range bs {
		eq := in.st.Eq(b, c)
		if eq.IsConst() {
			if eq.k != 0 {
				return in.st.Const(64, uint64(i))
			}
			continue
		}
		if in.branch(th, eq, "indexbyte") {
			return in.st.Const(64, uint64(i))
		}
	}
	return in.st.Const(64, ^uint64(0))
}

func (in *Interp) countByte(th *Thread, bs []*Term, c *Term) Value {
	n := in.st.Const(64, 0)
	for _, b := range bs {
		n = in.st.Bin(OpAdd, n, in.st.Ite(in.st.Eq(b, c), in.st.Const(64, 1), in.st.Const(64, 0)))
	}
	return n
}

// fatal models a Go runtime fatal error (not recoverable).
func (in *Interp) fatal(th *Thread, msg string) {
	f := &Failure{Kind: "panic", Label: "fatal", Site: in.siteOf(th.top), Detail: "fatal error: " + msg}
	if !in.inPrefix() {
		in.recordFailure(th, f, nil)
	}
	in.fail("panic", msg)
}

func (in *Interp) freshVar(w uint8, name string) *Term {
	k := in.varCount[name]
	in.varCount[name] = k + 1
	full := fmt.Sprintf("%s#%d", name, k)
	if in.concrete != nil {
		v := in.concrete[full]
		return in.st.Const(w, v)
	}
	t := in.st.Var(w, full)
	in.vars = append(in.vars, t)
	return t
}

// timeValue builds a time.Time for ns nanoseconds since the Unix epoch (UTC, no monotonic part).
func (in *Interp) timeValue(ns int64) Value {
	t := in.prog.typeByName("time.Time")
	a := in.zero(t).(*Agg)
	sec := ns / 1e9
	nsec := ns % 1e9
	if nsec < 0 {
		nsec += 1e9
		sec--
	}
	a.v[in.fieldIdx(t, "wall")] = in.st.Const(64, uint64(nsec))
	a.v[in.fieldIdx(t, "ext")] = in.st.Const(64, uint64(sec+62135596800))
	return a
}

// ---------- crc32 ----------

type crcRec struct {
	init  *Term
	poly  uint32
	n     int
	conc  bool
	bytes []*Term
	res   *Term
}

func (in *Interp) crcTable(poly uint32) *Cell {
	key := fmt.Sprintf("crctab:%x", poly)
	if c, ok := in.userState[key]; ok {
		return c.(*Cell)
	}
	tab := crc32.MakeTable(poly)
	a := &Agg{v: make([]Value, 256)}
	for i := range a.v {
		a.v[i] = in.st.Const(32, uint64(tab[i]))
	}
	c := in.newCell(a, key)
	in.userState[key] = c
	in.crcPoly[c] = poly
	return c
}

func (in *Interp) crcUpdate(th *Thread, crc *Term, tab Pointer, s Slice) Value {
	poly, ok := in.crcPoly[tab.c]
	if !ok {
		in.fail("unsupported", "crc32 with unknown table")
	}
	bs := in.sliceTerms(s)
	allConc := crc.IsConst()
	for _, b := range bs {
		if !b.IsConst() {
			allConc = false
			break
		}
	}
	if allConc {
		raw := make([]byte, len(bs))
		for i, b := range bs {
			raw[i] = byte(b.k)
		}
		r := crc32.Update(uint32(crc.k), crc32.MakeTable(poly), raw)
		res := in.st.Const(32, uint64(r))
		in.crcLog = append(in.crcLog, crcRec{init: crc, poly: poly, n: len(bs), conc: true, bytes: bs, res: res})
		return res
	}
	// uninterpreted, functionally consistent on (poly, crc, bytes)
	var sb strings.Builder
	fmt.Fprintf(&sb, "%x:%d:", poly, crc.id)
	for _, b := range bs {
		fmt.Fprintf(&sb, "%d,", b.id)
	}
	key := sb.String()
	if t, ok := in.crcMemo[key]; ok {
		in.crcLog = append(in.crcLog, crcRec{init: crc, poly: poly, n: len(bs), bytes: bs, res: t})
		return t
	}
	t := in.freshVar(32, "crc")
	in.crcMemo[key] = t
	in.crcLog = append(in.crcLog, crcRec{init: crc, poly: poly, n: len(bs), bytes: bs, res: t})
	return t
}

// ---------- strconv on symbolic strings (base 10, ≤ 18 characters: exact) ----------

func (in *Interp) parseIntSym(th *Thread, sv Value, base, bitSize int64, unsigned bool) Value {
	errT := in.prog.errorType
	_ = errT
	if s, ok := sv.(string); ok {
		var v uint64
		var err error
		if unsigned {
			v, err = strconv.ParseUint(s, int(base), int(bitSize))
		} else {
			var sv int64
			sv, err = strconv.ParseInt(s, int(base), int(bitSize))
			v = uint64(sv)
		}
		if err != nil {
			return Tuple{in.st.Const(64, v), in.prog.newErrorString(in, err.Error())}
		}
		return Tuple{in.st.Const(64, v), Iface{}}
	}
	bs := in.strBytes(sv)
	if base != 10 && base != 0 || len(bs) > 18 {
		in.fail("unsupported", "strconv.ParseInt on symbolic string with base != 10 or length > 18")
	}
	st := in.st
	mkErr := func() Value {
		return Tuple{st.Const(64, 0), in.prog.newErrorString(in, "strconv: invalid syntax or out of range")}
	}
	if len(bs) == 0 {
		return mkErr()
	}
	// optional sign (fork)
	neg := false
	digits := bs
	if !unsigned {
		isMinus := st.Eq(bs[0], st.Const(8, '-'))
		isPlus := st.Eq(bs[0], st.Const(8, '+'))
		signed := st.Or(isMinus, isPlus)
		take := false
		if signed.IsConst() {
			take = signed.k != 0
		} else {
			take = in.branch(th, signed, "parseint-sign")
		}
		if take {
			m := false
			if isMinus.IsConst() {
				m = isMinus.k != 0
			} else {
				m = in.branch(th, isMinus, "parseint-minus")
			}
			neg = m
			digits = bs[1:]
			if len(digits) == 0 {
				return mkErr()
			}
		}
	}
	valid := st.tt
	val := st.Const(64, 0)
	for _, b := range digits {
		isDigit := st.And(st.Cmp(OpUle, st.Const(8, '0'), b), st.Cmp(OpUle, b, st.Const(8, '9')))
		valid = st.And(valid, isDigit)
		d := st.ZExt(st.Bin(OpSub, b, st.Const(8, '0')), 64)
		val = st.Bin(OpAdd, st.Bin(OpMul, val, st.Const(64, 10)), d)
	}
	// range
	if bitSize == 0 {
		bitSize = 64
	}
	var inRange *Term
	maxVal := uint64(1)
	for range digits {
		maxVal *= 10
	}
	maxVal-- // largest value len(digits) decimal digits can denote (len <= 18: no overflow)
	if bitSize < 64 && !unsigned && maxVal <= (uint64(1)<<uint(bitSize-1))-1 {
		inRange = st.tt
	} else if bitSize < 64 && unsigned && maxVal <= (uint64(1)<<uint(bitSize))-1 {
		inRange = st.tt
	} else if bitSize >= 64 {
		inRange = st.tt
	} else if unsigned {
		if bitSize >= 64 {
			inRange = st.tt
		} else {
			inRange = st.Cmp(OpUle, val, st.Const(64, (uint64(1)<<uint(bitSize))-1))
		}
	} else {
		lim := uint64(1) << uint(bitSize-1)
		if neg {
			inRange = st.Cmp(OpUle, val, st.Const(64, lim))
		} else {
			inRange = st.Cmp(OpUle, val, st.Const(64, lim-1))
		}
	}
	okc := st.And(valid, inRange)
	good := false
	if okc.IsConst() {
		good = okc.k != 0
	} else {
		good = in.branch(th, okc, "parseint-valid")
	}
	if !good {
		return mkErr()
	}
	if neg {
		val = st.Un(OpNeg, val)
	}
	return Tuple{val, Iface{}}
}

func init() {
	regNative("strconv.ParseInt", false, func(in *Interp, th *Thread, fr *Frame, args []Value, call ssa.Instruction) (Value, ctl) {
		return in.parseIntSym(th, args[0], int64(in.intArg(th, args[1])), int64(in.intArg(th, args[2])), false), ctlNext
	})
	regNative("strconv.ParseUint", false, func(in *Interp, th *Thread, fr *Frame, args []Value, call ssa.Instruction) (Value, ctl) {
		return in.parseIntSym(th, args[0], int64(in.intArg(th, args[1])), int64(in.intArg(th, args[2])), true), ctlNext
	})
	regNative("strconv.Itoa", false, func(in *Interp, th *Thread, fr *Frame, args []Value, call ssa.Instruction) (Value, ctl) {
		n := args[0].(*Term)
		if n.IsConst() {
			return fmt.Sprint(n.S()), ctlNext
		}
		return &LazyStr{parts: []Value{&lazyItoa{n: n}}}, ctlNext
	})
	regNative("strconv.Atoi", false, func(in *Interp, th *Thread, fr *Frame, args []Value, call ssa.Instruction) (Value, ctl) {
		return in.parseIntSym(th, args[0], 10, 64, false), ctlNext
	})
}


// repairCRC turns a model into one in which every uninterpreted checksum equals the real CRC
// of the model's bytes (the stored checksum bytes must be free for this to succeed). Returns
// nil if no such model exists: the counterexample needs a CRC collision and is dropped.
func (in *Interp) repairCRC(cond *Term, m map[*Term]uint64) (map[*Term]uint64, SatResult) {
	hasSym := false
	for _, r := range in.crcLog {
		if !r.conc {
			hasSym = true
		}
	}
	if !hasSym {
		return m, Sat
	}
	for iter := 0; iter < 6; iter++ {
		env := map[string]uint64{}
		for t, v := range m {
			env[t.name] = v
		}
		memo := map[int32]uint64{}
		extra := in.st.tt
		if cond != nil {
			extra = cond
		}
		consistent := true
		for _, r := range in.crcLog {
			if r.conc {
				continue
			}
			raw := make([]byte, len(r.bytes))
			for i, b := range r.bytes {
				raw[i] = byte(evalTerm(b, env, memo))
				extra = in.st.And(extra, in.st.Eq(b, in.st.Const(8, uint64(raw[i]))))
			}
			init := uint32(evalTerm(r.init, env, memo))
			extra = in.st.And(extra, in.st.Eq(r.init, in.st.Const(32, uint64(init))))
			real := crc32.Update(init, crc32.MakeTable(r.poly), raw)
			if uint32(evalTerm(r.res, env, memo)) != real {
				consistent = false
			}
			extra = in.st.And(extra, in.st.Eq(r.res, in.st.Const(32, uint64(real))))
		}
		if consistent {
			return m, Sat
		}
		r, m2 := in.check(extra, in.vars)
		if r != Sat {
			return nil, r
		}
		m = m2
	}
	return nil, Unknown
}
