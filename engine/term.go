package main

// Hash-consed bit-vector / bool terms with constant folding and light simplification.
// One Store per worker (not thread-safe).

import (
	"fmt"
	"math/bits"
	"strings"
)

type Op uint8

const (
	OpConst Op = iota
	OpVar
	OpNot // bool
	OpAnd // bool
	OpOr  // bool
	OpEq  // any sort -> bool
	OpIte
	OpAdd
	OpSub
	OpMul
	OpUDiv
	OpURem
	OpSDiv
	OpSRem
	OpBAnd
	OpBOr
	OpBXor
	OpBNot
	OpNeg
	OpShl
	OpLShr
	OpAShr
	OpUlt
	OpUle
	OpSlt
	OpSle
	OpExtract // k = hi<<8|lo
	OpConcat
	OpZExt
	OpSExt
)

var opNames = map[Op]string{
	OpNot: "not", OpAnd: "and", OpOr: "or", OpEq: "=", OpIte: "ite",
	OpAdd: "bvadd", OpSub: "bvsub", OpMul: "bvmul", OpUDiv: "bvudiv", OpURem: "bvurem",
	OpSDiv: "bvsdiv", OpSRem: "bvsrem", OpBAnd: "bvand", OpBOr: "bvor", OpBXor: "bvxor",
	OpBNot: "bvnot", OpNeg: "bvneg", OpShl: "bvshl", OpLShr: "bvlshr", OpAShr: "bvashr",
	OpUlt: "bvult", OpUle: "bvule", OpSlt: "bvslt", OpSle: "bvsle", OpConcat: "concat",
}

// Term is an immutable node. w==0 means Bool sort.
type Term struct {
	id   int32
	op   Op
	w    uint8
	a, b *Term
	c    *Term
	k    uint64
	name string
}

type termKey struct {
	op      Op
	w       uint8
	a, b, c int32
	k       uint64
	name    string
}

type Store struct {
	tab   map[termKey]*Term
	terms []*Term
	tt    *Term
	ff    *Term
}

func NewStore() *Store {
	s := &Store{tab: map[termKey]*Term{}}
	s.tt = s.mk(OpConst, 0, nil, nil, nil, 1, "")
	s.ff = s.mk(OpConst, 0, nil, nil, nil, 0, "")
	return s
}

func tid(t *Term) int32 {
	if t == nil {
		return -1
	}
	return t.id
}

func (s *Store) mk(op Op, w uint8, a, b, c *Term, k uint64, name string) *Term {
	key := termKey{op, w, tid(a), tid(b), tid(c), k, name}
	if t, ok := s.tab[key]; ok {
		return t
	}
	t := &Term{id: int32(len(s.terms)), op: op, w: w, a: a, b: b, c: c, k: k, name: name}
	s.terms = append(s.terms, t)
	s.tab[key] = t
	return t
}

func mask(w uint8) uint64 {
	if w >= 64 {
		return ^uint64(0)
	}
	return (uint64(1) << w) - 1
}

func (t *Term) IsConst() bool { return t.op == OpConst }
func (t *Term) IsBool() bool  { return t.w == 0 }

// U returns the constant as unsigned.
func (t *Term) U() uint64 { return t.k }

// S returns the constant sign-extended to int64.
func (t *Term) S() int64 { return sext64(t.k, t.w) }

func sext64(v uint64, w uint8) int64 {
	if w == 0 || w >= 64 {
		return int64(v)
	}
	sh := 64 - uint(w)
	return int64(v<<sh) >> sh
}

func (s *Store) Const(w uint8, v uint64) *Term {
	if w == 0 {
		if v != 0 {
			return s.tt
		}
		return s.ff
	}
	return s.mk(OpConst, w, nil, nil, nil, v&mask(w), "")
}

func (s *Store) Bool(b bool) *Term {
	if b {
		return s.tt
	}
	return s.ff
}

func (s *Store) Var(w uint8, name string) *Term {
	return s.mk(OpVar, w, nil, nil, nil, 0, name)
}

func (s *Store) Not(a *Term) *Term {
	if a.op == OpConst {
		return s.Bool(a.k == 0)
	}
	if a.op == OpNot {
		return a.a
	}
	return s.mk(OpNot, 0, a, nil, nil, 0, "")
}

func (s *Store) And(a, b *Term) *Term {
	if a.op == OpConst {
		if a.k == 0 {
			return s.ff
		}
		return b
	}
	if b.op == OpConst {
		if b.k == 0 {
			return s.ff
		}
		return a
	}
	if a == b {
		return a
	}
	if (a.op == OpNot && a.a == b) || (b.op == OpNot && b.a == a) {
		return s.ff
	}
	if a.id > b.id {
		a, b = b, a
	}
	return s.mk(OpAnd, 0, a, b, nil, 0, "")
}

func (s *Store) Or(a, b *Term) *Term {
	if a.op == OpConst {
		if a.k != 0 {
			return s.tt
		}
		return b
	}
	if b.op == OpConst {
		if b.k != 0 {
			return s.tt
		}
		return a
	}
	if a == b {
		return a
	}
	if (a.op == OpNot && a.a == b) || (b.op == OpNot && b.a == a) {
		return s.tt
	}
	if a.id > b.id {
		a, b = b, a
	}
	return s.mk(OpOr, 0, a, b, nil, 0, "")
}

func (s *Store) Eq(a, b *Term) *Term {
	if a.w != b.w {
		panic(fmt.Sprintf("Eq width mismatch %d %d", a.w, b.w))
	}
	if a == b {
		return s.tt
	}
	if a.op == OpConst && b.op == OpConst {
		return s.Bool(a.k == b.k)
	}
	if a.w == 0 {
		// bool equality
		if a.op == OpConst {
			if a.k != 0 {
				return b
			}
			return s.Not(b)
		}
		if b.op == OpConst {
			if b.k != 0 {
				return a
			}
			return s.Not(a)
		}
	}
	if a.op == OpConst {
		a, b = b, a
	}
	// a non-const (or both non-const)
	if b.op == OpConst {
		// zext(x) == k with k out of x's range
		if a.op == OpZExt && b.k > mask(a.a.w) {
			return s.ff
		}
		if a.op == OpZExt {
			return s.Eq(a.a, s.Const(a.a.w, b.k))
		}
		if a.op == OpSExt {
			// representable?
			v := sext64(b.k, b.w)
			nv := sext64(uint64(v)&mask(a.a.w), a.a.w)
			if nv != v {
				return s.ff
			}
			return s.Eq(a.a, s.Const(a.a.w, uint64(v)))
		}
		if a.op == OpIte && a.b.op == OpConst && a.c.op == OpConst {
			// ite(c, k1, k2) == k
			t1 := a.b.k == b.k
			t2 := a.c.k == b.k
			switch {
			case t1 && t2:
				return s.tt
			case t1:
				return a.a
			case t2:
				return s.Not(a.a)
			default:
				return s.ff
			}
		}
		if a.op == OpIte {
			return s.Ite(a.a, s.Eq(a.b, b), s.Eq(a.c, b))
		}
	}
	if a.id > b.id && b.op != OpConst {
		a, b = b, a
	}
	return s.mk(OpEq, 0, a, b, nil, 0, "")
}

func (s *Store) Ite(c, a, b *Term) *Term {
	if c.op == OpConst {
		if c.k != 0 {
			return a
		}
		return b
	}
	if a == b {
		return a
	}
	if a.w != b.w {
		panic("Ite width mismatch")
	}
	if a.w == 0 {
		if a.op == OpConst && b.op == OpConst {
			if a.k != 0 { // ite(c, true, false)
				return c
			}
			return s.Not(c)
		}
		if a.op == OpConst {
			if a.k != 0 {
				return s.Or(c, b)
			}
			return s.And(s.Not(c), b)
		}
		if b.op == OpConst {
			if b.k != 0 {
				return s.Or(s.Not(c), a)
			}
			return s.And(c, a)
		}
	}
	if c.op == OpNot {
		return s.mk(OpIte, a.w, c.a, b, a, 0, "")
	}
	return s.mk(OpIte, a.w, c, a, b, 0, "")
}

// isValueSet reports whether t is an ite-tree over constants (depth-limited).
func isValueSet(t *Term, depth int) bool {
	if t.op == OpConst {
		return true
	}
	if t.op == OpIte && depth > 0 {
		return isValueSet(t.b, depth-1) && isValueSet(t.c, depth-1)
	}
	return false
}

func (s *Store) liftVS(t *Term, f func(*Term) *Term) *Term {
	if t.op == OpConst {
		return f(t)
	}
	return s.Ite(t.a, s.liftVS(t.b, f), s.liftVS(t.c, f))
}

func foldBin(op Op, w uint8, x, y uint64) (uint64, bool) {
	m := mask(w)
	switch op {
	case OpAdd:
		return (x + y) & m, true
	case OpSub:
		return (x - y) & m, true
	case OpMul:
		return (x * y) & m, true
	case OpUDiv:
		if y == 0 {
			return m, true
		}
		return x / y, true
	case OpURem:
		if y == 0 {
			return x, true
		}
		return x % y, true
	case OpSDiv:
		sx, sy := sext64(x, w), sext64(y, w)
		if sy == 0 {
			if sx >= 0 {
				return m, true
			}
			return 1, true
		}
		if sy == -1 {
			return uint64(-sx) & m, true
		}
		return uint64(sx/sy) & m, true
	case OpSRem:
		sx, sy := sext64(x, w), sext64(y, w)
		if sy == 0 {
			return x, true
		}
		if sy == -1 {
			return 0, true
		}
		return uint64(sx%sy) & m, true
	case OpBAnd:
		return x & y, true
	case OpBOr:
		return x | y, true
	case OpBXor:
		return x ^ y, true
	case OpShl:
		if y >= uint64(w) {
			return 0, true
		}
		return (x << y) & m, true
	case OpLShr:
		if y >= uint64(w) {
			return 0, true
		}
		return x >> y, true
	case OpAShr:
		sx := sext64(x, w)
		if y >= uint64(w) {
			y = uint64(w) - 1
		}
		return uint64(sx>>y) & m, true
	}
	return 0, false
}

func (s *Store) Bin(op Op, a, b *Term) *Term {
	if a.w != b.w {
		panic(fmt.Sprintf("Bin %v width mismatch %d %d", opNames[op], a.w, b.w))
	}
	w := a.w
	if a.op == OpConst && b.op == OpConst {
		if v, ok := foldBin(op, w, a.k, b.k); ok {
			return s.Const(w, v)
		}
	}
	// value-set lifting for the operations that hurt the bit-blaster
	switch op {
	case OpMul, OpUDiv, OpURem, OpSDiv, OpSRem:
		if a.op == OpIte && b.op == OpConst && isValueSet(a, 6) {
			return s.liftVS(a, func(k *Term) *Term { return s.Bin(op, k, b) })
		}
		if b.op == OpIte && a.op == OpConst && isValueSet(b, 6) {
			return s.liftVS(b, func(k *Term) *Term { return s.Bin(op, a, k) })
		}
	case OpAdd, OpSub:
		if a.op == OpIte && b.op == OpConst && isValueSet(a, 6) {
			return s.liftVS(a, func(k *Term) *Term { return s.Bin(op, k, b) })
		}
	}
	switch op {
	case OpAdd:
		if a.op == OpConst && a.k == 0 {
			return b
		}
		if b.op == OpConst && b.k == 0 {
			return a
		}
		if a.op == OpConst { // canonical: const on the right
			a, b = b, a
		}
		// (x + k1) + k2
		if b.op == OpConst && a.op == OpAdd && a.b.op == OpConst {
			return s.Bin(OpAdd, a.a, s.Const(w, a.b.k+b.k))
		}
		if b.op == OpConst && a.op == OpSub && a.b.op == OpConst {
			return s.Bin(OpAdd, a.a, s.Const(w, b.k-a.b.k))
		}
	case OpSub:
		if b.op == OpConst && b.k == 0 {
			return a
		}
		if a == b {
			return s.Const(w, 0)
		}
		if b.op == OpConst {
			return s.Bin(OpAdd, a, s.Const(w, -b.k))
		}
		// (x + k) - x
		if a.op == OpAdd && a.a == b {
			return a.b
		}
	case OpMul:
		if a.op == OpConst {
			a, b = b, a
		}
		if b.op == OpConst {
			if b.k == 0 {
				return b
			}
			if b.k == 1 {
				return a
			}
		}
	case OpUDiv, OpSDiv:
		if b.op == OpConst && b.k == 1 {
			return a
		}
	case OpBAnd:
		if a == b {
			return a
		}
		if a.op == OpConst {
			a, b = b, a
		}
		if b.op == OpConst {
			if b.k == 0 {
				return b
			}
			if b.k == mask(w) {
				return a
			}
			// zext(x) & k where k covers x
			if a.op == OpZExt && b.k&mask(a.a.w) == mask(a.a.w) {
				return a
			}
		}
	case OpBOr:
		if a == b {
			return a
		}
		if a.op == OpConst {
			a, b = b, a
		}
		// byte assembly: zext(lo) | (zext(hi) << k)  ==>  zext(concat(hi, lo)) when lo fits in k bits
		if r := s.orAsConcat(a, b); r != nil {
			return r
		}
		if r := s.orAsConcat(b, a); r != nil {
			return r
		}
		if b.op == OpConst {
			if b.k == 0 {
				return a
			}
			if b.k == mask(w) {
				return b
			}
		}
	case OpBXor:
		if a == b {
			return s.Const(w, 0)
		}
		if a.op == OpConst {
			a, b = b, a
		}
		if b.op == OpConst && b.k == 0 {
			return a
		}
	case OpShl, OpLShr, OpAShr:
		if b.op == OpConst && b.k == 0 {
			return a
		}
		if a.op == OpConst && a.k == 0 {
			return a
		}
		if b.op == OpConst && b.k >= uint64(w) && op != OpAShr {
			return s.Const(w, 0)
		}
		// lshr(zext(x), k) with k >= width(x) = 0
		if op == OpLShr && b.op == OpConst && a.op == OpZExt && b.k >= uint64(a.a.w) {
			return s.Const(w, 0)
		}
	}
	return s.mk(op, w, a, b, nil, 0, "")
}

// lowBits returns (inner, true) when t == zero_extend(inner).
func lowBits(t *Term) (*Term, bool) {
	if t.op == OpZExt {
		return t.a, true
	}
	return nil, false
}

// orAsConcat recognises lo | (hi << k) with lo = zext(l), hi-part = zext(h), l.w <= k, h.w+k <= w.
func (s *Store) orAsConcat(lo, hiSh *Term) *Term {
	if hiSh.op != OpShl || hiSh.b.op != OpConst {
		return nil
	}
	k := hiSh.b.k
	w := lo.w
	if k == 0 || k >= uint64(w) {
		return nil
	}
	l, ok := lowBits(lo)
	if !ok || uint64(l.w) > k {
		return nil
	}
	var h *Term
	if hi, ok := lowBits(hiSh.a); ok {
		h = hi
	} else {
		return nil
	}
	if uint64(h.w)+k > uint64(w) {
		// the shift drops high bits of h: keep only what survives
		keep := uint8(uint64(w) - k)
		h = s.Extract(h, keep-1, 0)
	}
	lk := s.ZExt(l, uint8(k))
	return s.ZExt(s.Concat(h, lk), w)
}

func (s *Store) Un(op Op, a *Term) *Term {
	if a.op == OpConst {
		switch op {
		case OpBNot:
			return s.Const(a.w, ^a.k)
		case OpNeg:
			return s.Const(a.w, -a.k)
		}
	}
	if a.op == op { // double negation
		return a.a
	}
	if op == OpNeg && a.op == OpIte && isValueSet(a, 6) {
		return s.liftVS(a, func(k *Term) *Term { return s.Un(op, k) })
	}
	return s.mk(op, a.w, a, nil, nil, 0, "")
}

// range of a term as unsigned, cheap
func urange(t *Term) (lo, hi uint64) {
	switch t.op {
	case OpConst:
		return t.k, t.k
	case OpZExt:
		return 0, mask(t.a.w)
	case OpIte:
		l1, h1 := urange(t.b)
		l2, h2 := urange(t.c)
		if l2 < l1 {
			l1 = l2
		}
		if h2 > h1 {
			h1 = h2
		}
		return l1, h1
	case OpBAnd:
		if t.b.op == OpConst {
			return 0, t.b.k
		}
	case OpLShr:
		if t.b.op == OpConst && t.b.k < uint64(t.w) {
			return 0, mask(t.w) >> t.b.k
		}
	case OpURem:
		if t.b.op == OpConst && t.b.k > 0 {
			return 0, t.b.k - 1
		}
	}
	return 0, mask(t.w)
}

func (s *Store) Cmp(op Op, a, b *Term) *Term {
	if a.w != b.w {
		panic(fmt.Sprintf("Cmp width mismatch %d %d", a.w, b.w))
	}
	w := a.w
	if a.op == OpConst && b.op == OpConst {
		switch op {
		case OpUlt:
			return s.Bool(a.k < b.k)
		case OpUle:
			return s.Bool(a.k <= b.k)
		case OpSlt:
			return s.Bool(sext64(a.k, w) < sext64(b.k, w))
		case OpSle:
			return s.Bool(sext64(a.k, w) <= sext64(b.k, w))
		}
	}
	if a == b {
		return s.Bool(op == OpUle || op == OpSle)
	}
	// value-set lifting
	if a.op == OpIte && b.op == OpConst && isValueSet(a, 6) {
		return s.liftVSB(a, func(k *Term) *Term { return s.Cmp(op, k, b) })
	}
	if b.op == OpIte && a.op == OpConst && isValueSet(b, 6) {
		return s.liftVSB(b, func(k *Term) *Term { return s.Cmp(op, a, k) })
	}
	// cheap range reasoning (unsigned, and signed when both clearly non-negative)
	al, ah := urange(a)
	bl, bh := urange(b)
	half := uint64(1) << (w - 1)
	nonneg := ah < half && bh < half
	if op == OpUlt || (op == OpSlt && nonneg) {
		if ah < bl {
			return s.tt
		}
		if al >= bh {
			return s.ff
		}
	}
	if op == OpUle || (op == OpSle && nonneg) {
		if ah <= bl {
			return s.tt
		}
		if al > bh {
			return s.ff
		}
	}
	return s.mk(op, 0, a, b, nil, 0, "")
}

func (s *Store) liftVSB(t *Term, f func(*Term) *Term) *Term {
	if t.op == OpConst {
		return f(t)
	}
	return s.Ite(t.a, s.liftVSB(t.b, f), s.liftVSB(t.c, f))
}

func (s *Store) Extract(a *Term, hi, lo uint8) *Term {
	w := hi - lo + 1
	if lo == 0 && w == a.w {
		return a
	}
	if a.op == OpConst {
		return s.Const(w, a.k>>lo)
	}
	switch a.op {
	case OpZExt, OpSExt:
		if hi < a.a.w {
			return s.Extract(a.a, hi, lo)
		}
		if a.op == OpZExt && lo >= a.a.w {
			return s.Const(w, 0)
		}
	case OpConcat:
		// a = a.a ++ a.b ; low part is a.b
		if hi < a.b.w {
			return s.Extract(a.b, hi, lo)
		}
		if lo >= a.b.w {
			return s.Extract(a.a, hi-a.b.w, lo-a.b.w)
		}
	case OpIte:
		if isValueSet(a, 6) {
			return s.liftVS(a, func(k *Term) *Term { return s.Extract(k, hi, lo) })
		}
	case OpBOr, OpBAnd, OpBXor:
		// push extract into bitwise ops when it simplifies a side to a constant (common in
		// big-endian assembly: byte(x>>8))
		l := s.Extract(a.a, hi, lo)
		r := s.Extract(a.b, hi, lo)
		if l.op == OpConst || r.op == OpConst {
			return s.Bin(a.op, l, r)
		}
	case OpShl:
		if a.b.op == OpConst {
			sh := a.b.k
			if uint64(lo) >= sh && sh < 64 {
				// bits come from a.a[hi-sh : lo-sh]
				return s.Extract(a.a, hi-uint8(sh), lo-uint8(sh))
			}
			if uint64(hi) < sh {
				return s.Const(w, 0)
			}
		}
	case OpLShr:
		if a.b.op == OpConst {
			sh := a.b.k
			if uint64(hi)+sh < uint64(a.w) {
				return s.Extract(a.a, hi+uint8(sh), lo+uint8(sh))
			}
		}
	case OpExtract:
		ilo := uint8(a.k & 0xff)
		return s.Extract(a.a, hi+ilo, lo+ilo)
	}
	return s.mk(OpExtract, w, a, nil, nil, uint64(hi)<<8|uint64(lo), "")
}

func (s *Store) Concat(a, b *Term) *Term {
	w := a.w + b.w
	if a.op == OpConst && b.op == OpConst {
		return s.Const(w, a.k<<b.w|b.k)
	}
	if a.op == OpConst && a.k == 0 {
		return s.ZExt(b, w)
	}
	// adjacent extracts of the same term merge
	if a.op == OpExtract && b.op == OpExtract && a.a == b.a {
		alo := uint8(a.k & 0xff)
		bhi, blo := uint8(b.k>>8), uint8(b.k&0xff)
		if alo == bhi+1 {
			return s.Extract(a.a, uint8(a.k>>8), blo)
		}
	}
	// extract(x, hi, lo) ++ x[lo-1:0] where b is the full low part of x
	if a.op == OpExtract && a.a == b && uint8(a.k&0xff) == b.w {
		return s.Extract(b, uint8(a.k>>8), 0)
	}
	// nested: a ++ (b1 ++ b2) where a and b1 are adjacent extracts
	if a.op == OpExtract && b.op == OpConcat && b.a.op == OpExtract && a.a == b.a.a && uint8(a.k&0xff) == uint8(b.a.k>>8)+1 {
		return s.Concat(s.Extract(a.a, uint8(a.k>>8), uint8(b.a.k&0xff)), b.b)
	}
	return s.mk(OpConcat, w, a, b, nil, 0, "")
}

func (s *Store) ZExt(a *Term, w uint8) *Term {
	if w == a.w {
		return a
	}
	if w < a.w {
		return s.Extract(a, w-1, 0)
	}
	if a.op == OpConst {
		return s.Const(w, a.k)
	}
	if a.op == OpZExt {
		return s.ZExt(a.a, w)
	}
	if a.op == OpIte && isValueSet(a, 6) {
		return s.liftVS(a, func(k *Term) *Term { return s.ZExt(k, w) })
	}
	return s.mk(OpZExt, w, a, nil, nil, 0, "")
}

func (s *Store) SExt(a *Term, w uint8) *Term {
	if w == a.w {
		return a
	}
	if w < a.w {
		return s.Extract(a, w-1, 0)
	}
	if a.op == OpConst {
		return s.Const(w, uint64(sext64(a.k, a.w)))
	}
	if a.op == OpSExt {
		return s.SExt(a.a, w)
	}
	if a.op == OpZExt { // zext then sext = zext (top bit is 0)
		return s.ZExt(a.a, w)
	}
	if a.op == OpIte && isValueSet(a, 6) {
		return s.liftVS(a, func(k *Term) *Term { return s.SExt(k, w) })
	}
	return s.mk(OpSExt, w, a, nil, nil, 0, "")
}

// ---------- SMT-LIB printing ----------

func sortStr(w uint8) string {
	if w == 0 {
		return "Bool"
	}
	return fmt.Sprintf("(_ BitVec %d)", w)
}

func constStr(t *Term) string {
	if t.w == 0 {
		if t.k != 0 {
			return "true"
		}
		return "false"
	}
	if t.w%4 == 0 {
		return fmt.Sprintf("#x%0*x", int(t.w/4), t.k)
	}
	return fmt.Sprintf("#b%0*b", int(t.w), t.k)
}

func (t *Term) ref() string {
	switch t.op {
	case OpConst:
		return constStr(t)
	case OpVar:
		return "v" + fmt.Sprint(t.id)
	}
	return "t" + fmt.Sprint(t.id)
}

// body returns the SMT expression of a non-leaf term with children referenced by name.
func (t *Term) body() string {
	switch t.op {
	case OpExtract:
		return fmt.Sprintf("((_ extract %d %d) %s)", t.k>>8, t.k&0xff, t.a.ref())
	case OpZExt:
		return fmt.Sprintf("((_ zero_extend %d) %s)", t.w-t.a.w, t.a.ref())
	case OpSExt:
		return fmt.Sprintf("((_ sign_extend %d) %s)", t.w-t.a.w, t.a.ref())
	case OpNot, OpBNot, OpNeg:
		return fmt.Sprintf("(%s %s)", opNames[t.op], t.a.ref())
	case OpIte:
		return fmt.Sprintf("(ite %s %s %s)", t.a.ref(), t.b.ref(), t.c.ref())
	}
	return fmt.Sprintf("(%s %s %s)", opNames[t.op], t.a.ref(), t.b.ref())
}

// String gives a readable (possibly large) rendering for diagnostics.
func (t *Term) String() string {
	var sb strings.Builder
	t.str(&sb, 0)
	return sb.String()
}

func (t *Term) str(sb *strings.Builder, depth int) {
	if depth > 8 {
		sb.WriteString("…")
		return
	}
	switch t.op {
	case OpConst:
		if t.w == 0 {
			sb.WriteString(constStr(t))
		} else {
			fmt.Fprintf(sb, "%d", sext64(t.k, t.w))
		}
	case OpVar:
		sb.WriteString(t.name)
	case OpExtract:
		fmt.Fprintf(sb, "ext[%d:%d](", t.k>>8, t.k&0xff)
		t.a.str(sb, depth+1)
		sb.WriteString(")")
	case OpZExt, OpSExt:
		if t.op == OpZExt {
			fmt.Fprintf(sb, "zx%d(", t.w)
		} else {
			fmt.Fprintf(sb, "sx%d(", t.w)
		}
		t.a.str(sb, depth+1)
		sb.WriteString(")")
	default:
		sb.WriteString("(")
		sb.WriteString(opNames[t.op])
		for _, x := range []*Term{t.a, t.b, t.c} {
			if x != nil {
				sb.WriteString(" ")
				x.str(sb, depth+1)
			}
		}
		sb.WriteString(")")
	}
}

// vars collects the variables occurring in t.
func collectVars(t *Term, seen map[int32]bool, out *[]*Term) {
	if t == nil || seen[t.id] {
		return
	}
	seen[t.id] = true
	if t.op == OpVar {
		*out = append(*out, t)
		return
	}
	collectVars(t.a, seen, out)
	collectVars(t.b, seen, out)
	collectVars(t.c, seen, out)
}

// evalTerm evaluates t under a full assignment of variables (by name).
func evalTerm(t *Term, env map[string]uint64, memo map[int32]uint64) uint64 {
	if v, ok := memo[t.id]; ok {
		return v
	}
	var r uint64
	switch t.op {
	case OpConst:
		r = t.k
	case OpVar:
		r = env[t.name] & mask(t.w)
		if t.w == 0 {
			r = env[t.name] & 1
		}
	case OpNot:
		r = 1 - evalTerm(t.a, env, memo)
	case OpAnd:
		r = evalTerm(t.a, env, memo) & evalTerm(t.b, env, memo)
	case OpOr:
		r = evalTerm(t.a, env, memo) | evalTerm(t.b, env, memo)
	case OpEq:
		if evalTerm(t.a, env, memo) == evalTerm(t.b, env, memo) {
			r = 1
		}
	case OpIte:
		if evalTerm(t.a, env, memo) != 0 {
			r = evalTerm(t.b, env, memo)
		} else {
			r = evalTerm(t.c, env, memo)
		}
	case OpBNot:
		r = ^evalTerm(t.a, env, memo) & mask(t.w)
	case OpNeg:
		r = -evalTerm(t.a, env, memo) & mask(t.w)
	case OpUlt, OpUle, OpSlt, OpSle:
		x, y := evalTerm(t.a, env, memo), evalTerm(t.b, env, memo)
		w := t.a.w
		var b bool
		switch t.op {
		case OpUlt:
			b = x < y
		case OpUle:
			b = x <= y
		case OpSlt:
			b = sext64(x, w) < sext64(y, w)
		case OpSle:
			b = sext64(x, w) <= sext64(y, w)
		}
		if b {
			r = 1
		}
	case OpExtract:
		hi, lo := uint8(t.k>>8), uint8(t.k&0xff)
		r = (evalTerm(t.a, env, memo) >> lo) & mask(hi-lo+1)
	case OpConcat:
		r = evalTerm(t.a, env, memo)<<t.b.w | evalTerm(t.b, env, memo)
	case OpZExt:
		r = evalTerm(t.a, env, memo)
	case OpSExt:
		r = uint64(sext64(evalTerm(t.a, env, memo), t.a.w)) & mask(t.w)
	default:
		x, y := evalTerm(t.a, env, memo), evalTerm(t.b, env, memo)
		v, ok := foldBin(t.op, t.w, x, y)
		if !ok {
			panic("evalTerm: op")
		}
		r = v
	}
	memo[t.id] = r
	return r
}

var _ = bits.Len
