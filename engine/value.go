package main

// Value model: concrete heap shape, symbolic scalars.

import (
	"fmt"
	"go/types"
	"strings"

	"golang.org/x/tools/go/ssa"
)

type Value interface{}

// Cell is a heap (or stack) location holding one value.
type Cell struct {
	v    Value
	id   int
	name string
	// lockset race check bookkeeping (optional)
}

// Pointer addresses a sub-value of the aggregate held in a cell.
type Pointer struct {
	c    *Cell
	path []int
}

func (p Pointer) IsNil() bool { return p.c == nil }

// Agg is a struct or array value. Value semantics: copied on load/store.
type Agg struct {
	v []Value
}

// Slice value; nil slice has arr == nil.
type Slice struct {
	arr           *Cell // holds *Agg
	off, len, cap int
}

// LazyStr is a concatenation whose integer-formatting parts are expanded only when the string
// is inspected (most formatted strings are error messages nobody looks into).
type LazyStr struct {
	parts  []Value // string | *SymStr | *lazyItoa
	forced Value
}

type lazyItoa struct {
	n      *Term // 64-bit signed
	forced Value
}

// SymStr is a string with symbolic bytes and concrete length. Concrete strings are Go strings.
type SymStr struct {
	b []*Term // 8-bit terms
}

type Map struct {
	keys []Value
	vals []Value
	live []bool
	n    int
	id   int
}

type Iface struct {
	t types.Type // dynamic type; nil means nil interface
	v Value
}

type Closure struct {
	fn  *ssa.Function
	env []Value
}

// Native is an engine-implemented function value.
type Native struct {
	name string
	f    func(th *Thread, args []Value) Value
}

type Tuple []Value

// Float values are concrete.
type Float struct {
	f float64
}

// Opaque is a value of a type the engine does not model (returned by stubs).
type Opaque struct {
	what string
}

// ---------- zero values ----------

func (in *Interp) intWidth(b *types.Basic) (uint8, bool) {
	switch b.Kind() {
	case types.Bool, types.UntypedBool:
		return 0, false
	case types.Int8:
		return 8, true
	case types.Uint8:
		return 8, false
	case types.Int16:
		return 16, true
	case types.Uint16:
		return 16, false
	case types.Int32, types.UntypedRune:
		return 32, true
	case types.Uint32:
		return 32, false
	case types.Int64, types.Int, types.UntypedInt:
		return 64, true
	case types.Uint64, types.Uint, types.Uintptr:
		return 64, false
	}
	panic("intWidth: " + b.String())
}

func isIntegerOrBool(t types.Type) bool {
	b, ok := t.Underlying().(*types.Basic)
	if !ok {
		return false
	}
	return b.Info()&(types.IsInteger|types.IsBoolean) != 0
}

func isSigned(t types.Type) bool {
	b, ok := t.Underlying().(*types.Basic)
	if !ok {
		return false
	}
	return b.Info()&types.IsInteger != 0 && b.Info()&types.IsUnsigned == 0
}

func (in *Interp) widthOf(t types.Type) uint8 {
	w, _ := in.intWidth(t.Underlying().(*types.Basic))
	return w
}

func (in *Interp) zero(t types.Type) Value {
	switch u := t.Underlying().(type) {
	case *types.Basic:
		switch {
		case u.Info()&types.IsBoolean != 0:
			return in.st.ff
		case u.Info()&types.IsInteger != 0:
			w, _ := in.intWidth(u)
			return in.st.Const(w, 0)
		case u.Info()&types.IsFloat != 0:
			return Float{0}
		case u.Info()&types.IsString != 0:
			return ""
		case u.Kind() == types.UnsafePointer:
			return Pointer{}
		case u.Kind() == types.UntypedNil:
			return nil
		case u.Info()&types.IsComplex != 0:
			return Float{0}
		}
		panic("zero: basic " + u.String())
	case *types.Pointer:
		return Pointer{}
	case *types.Struct:
		n := u.NumFields()
		a := &Agg{v: make([]Value, n)}
		for i := 0; i < n; i++ {
			a.v[i] = in.zero(u.Field(i).Type())
		}
		return a
	case *types.Array:
		n := int(u.Len())
		a := &Agg{v: make([]Value, n)}
		if n > 0 {
			z := in.zero(u.Elem())
			if _, isAgg := z.(*Agg); isAgg {
				a.v[0] = z
				for i := 1; i < n; i++ {
					a.v[i] = in.zero(u.Elem())
				}
			} else {
				for i := range a.v {
					a.v[i] = z
				}
			}
		}
		return a
	case *types.Slice:
		return Slice{}
	case *types.Map:
		return (*Map)(nil)
	case *types.Chan:
		return (*Chan)(nil)
	case *types.Interface:
		return Iface{}
	case *types.Signature:
		return (*Closure)(nil)
	case *types.Tuple:
		tu := make(Tuple, u.Len())
		for i := range tu {
			tu[i] = in.zero(u.At(i).Type())
		}
		return tu
	case *types.TypeParam:
		panic("zero: type param")
	}
	panic(fmt.Sprintf("zero: %T %v", t, t))
}

// copyVal copies aggregate values (value semantics); other values are immutable or references.
func copyVal(v Value) Value {
	if a, ok := v.(*Agg); ok {
		n := &Agg{v: make([]Value, len(a.v))}
		for i, x := range a.v {
			if _, isAgg := x.(*Agg); isAgg {
				n.v[i] = copyVal(x)
			} else {
				n.v[i] = x
			}
		}
		return n
	}
	return v
}

func (in *Interp) newCell(v Value, name string) *Cell {
	in.cellSeq++
	return &Cell{v: v, id: in.cellSeq, name: name}
}

// load reads through a pointer.
func (in *Interp) load(th *Thread, p Pointer) Value {
	if p.c == nil {
		in.panicRT(th, "nil pointer dereference")
		return nil
	}
	v := p.c.v
	for _, i := range p.path {
		v = v.(*Agg).v[i]
	}
	return copyVal(v)
}

func (in *Interp) store(th *Thread, p Pointer, v Value) {
	if p.c == nil {
		in.panicRT(th, "nil pointer dereference")
		return
	}
	v = copyVal(v)
	if len(p.path) == 0 {
		p.c.v = v
		return
	}
	cur := p.c.v.(*Agg)
	for _, i := range p.path[:len(p.path)-1] {
		cur = cur.v[i].(*Agg)
	}
	cur.v[p.path[len(p.path)-1]] = v
}

func (p Pointer) sub(i int) Pointer {
	np := make([]int, len(p.path)+1)
	copy(np, p.path)
	np[len(p.path)] = i
	return Pointer{p.c, np}
}

func ptrEq(a, b Pointer) bool {
	if a.c != b.c || len(a.path) != len(b.path) {
		return false
	}
	for i := range a.path {
		if a.path[i] != b.path[i] {
			return false
		}
	}
	return true
}

// ---------- strings ----------

func (in *Interp) strLen(v Value) int {
	switch s := v.(type) {
	case *LazyStr:
		return in.strLen(in.force(s))
	case string:
		return len(s)
	case *SymStr:
		return len(s.b)
	}
	panic(fmt.Sprintf("strLen: %T", v))
}

func (in *Interp) strBytes(v Value) []*Term {
	switch s := v.(type) {
	case *LazyStr:
		return in.strBytes(in.force(s))
	case string:
		out := make([]*Term, len(s))
		for i := 0; i < len(s); i++ {
			out[i] = in.st.Const(8, uint64(s[i]))
		}
		return out
	case *SymStr:
		return s.b
	}
	panic(fmt.Sprintf("strBytes: %T", v))
}

// mkStr builds a string value, concrete when all bytes are.
func (in *Interp) mkStr(b []*Term) Value {
	all := true
	for _, t := range b {
		if !t.IsConst() {
			all = false
			break
		}
	}
	if all {
		bs := make([]byte, len(b))
		for i, t := range b {
			bs[i] = byte(t.k)
		}
		return string(bs)
	}
	cp := make([]*Term, len(b))
	copy(cp, b)
	return &SymStr{cp}
}

// strEq returns a bool term for string equality.
func (in *Interp) strEq(a, b Value) *Term {
	if sa, ok := a.(string); ok {
		if sb, ok := b.(string); ok {
			return in.st.Bool(sa == sb)
		}
	}
	ba, bb := in.strBytes(a), in.strBytes(b)
	if len(ba) != len(bb) {
		return in.st.ff
	}
	r := in.st.tt
	for i := range ba {
		r = in.st.And(r, in.st.Eq(ba[i], bb[i]))
	}
	return r
}

// strLess returns a bool term for a < b (lexicographic).
func (in *Interp) strLess(a, b Value) *Term {
	if sa, ok := a.(string); ok {
		if sb, ok := b.(string); ok {
			return in.st.Bool(sa < sb)
		}
	}
	ba, bb := in.strBytes(a), in.strBytes(b)
	// build from the end: less(i) = a[i]<b[i] || (a[i]==b[i] && less(i+1))
	n := len(ba)
	if len(bb) < n {
		n = len(bb)
	}
	r := in.st.Bool(len(ba) < len(bb))
	for i := n - 1; i >= 0; i-- {
		lt := in.st.Cmp(OpUlt, ba[i], bb[i])
		eq := in.st.Eq(ba[i], bb[i])
		r = in.st.Or(lt, in.st.And(eq, r))
	}
	return r
}

// ---------- equality ----------

// eqVal returns a bool term for Go's == on two values of static type t.
func (in *Interp) eqVal(th *Thread, t types.Type, a, b Value) *Term {
	switch x := a.(type) {
	case *Term:
		y, ok := b.(*Term)
		if !ok {
			panic(fmt.Sprintf("eqVal: Term vs %T", b))
		}
		return in.st.Eq(x, y)
	case Float:
		return in.st.Bool(x.f == b.(Float).f)
	case string, *SymStr, *LazyStr:
		return in.strEq(a, b)
	case Pointer:
		return in.st.Bool(ptrEq(x, b.(Pointer)))
	case *Agg:
		y := b.(*Agg)
		r := in.st.tt
		switch u := t.Underlying().(type) {
		case *types.Struct:
			for i := range x.v {
				if u.Field(i).Name() == "_" {
					continue
				}
				r = in.st.And(r, in.eqVal(th, u.Field(i).Type(), x.v[i], y.v[i]))
			}
		case *types.Array:
			for i := range x.v {
				r = in.st.And(r, in.eqVal(th, u.Elem(), x.v[i], y.v[i]))
			}
		default:
			panic("eqVal agg type")
		}
		return r
	case Slice:
		// only comparison with nil is legal
		y := b.(Slice)
		if y.arr == nil && y.len == 0 {
			return in.st.Bool(x.arr == nil)
		}
		return in.st.Bool(y.arr == nil && x.arr == nil)
	case *Map:
		return in.st.Bool(x == b.(*Map))
	case *Chan:
		return in.st.Bool(x == b.(*Chan))
	case *Closure:
		y, _ := b.(*Closure)
		return in.st.Bool(x == y)
	case *Native:
		return in.st.Bool(a == b)
	case Iface:
		y, ok := b.(Iface)
		if !ok {
			panic(fmt.Sprintf("eqVal: Iface vs %T", b))
		}
		if x.t == nil || y.t == nil {
			return in.st.Bool(x.t == nil && y.t == nil)
		}
		if !types.Identical(x.t, y.t) {
			return in.st.ff
		}
		if !types.Comparable(x.t) {
			in.panicRT(th, "runtime error: comparing uncomparable type "+x.t.String())
			return in.st.ff
		}
		return in.eqVal(th, x.t, x.v, y.v)
	case *Opaque:
		return in.st.Bool(a == b)
	case nil:
		return in.st.Bool(b == nil)
	}
	panic(fmt.Sprintf("eqVal: unhandled %T", a))
}

// ---------- maps ----------

func (in *Interp) newMap() *Map {
	in.cellSeq++
	return &Map{id: in.cellSeq}
}

// mapFind returns the index of key in m, forking on undecided symbolic equalities.
func (in *Interp) mapFind(th *Thread, m *Map, kt types.Type, key Value) int {
	if m == nil {
		return -1
	}
	for i := range m.keys {
		if !m.live[i] {
			continue
		}
		c := in.eqVal(th, kt, m.keys[i], key)
		if th.panicking != nil {
			return -1
		}
		if c.IsConst() {
			if c.k != 0 {
				return i
			}
			continue
		}
		if in.branch(th, c, "mapkey") {
			return i
		}
	}
	return -1
}

func (in *Interp) mapSet(th *Thread, m *Map, kt types.Type, key, val Value) {
	if m == nil {
		in.panicRT(th, "assignment to entry in nil map")
		return
	}
	i := in.mapFind(th, m, kt, key)
	if th.panicking != nil {
		return
	}
	if i >= 0 {
		m.vals[i] = copyVal(val)
		return
	}
	m.keys = append(m.keys, copyVal(key))
	m.vals = append(m.vals, copyVal(val))
	m.live = append(m.live, true)
	m.n++
}

func (in *Interp) mapDelete(th *Thread, m *Map, kt types.Type, key Value) {
	i := in.mapFind(th, m, kt, key)
	if i >= 0 {
		m.live[i] = false
		m.n--
	}
}

// ---------- rendering ----------

func (in *Interp) show(v Value) string {
	return showVal(v, 0)
}

func showVal(v Value, d int) string {
	if d > 4 {
		return "…"
	}
	switch x := v.(type) {
	case *LazyStr:
		return "lazystr"
	case nil:
		return "<nil>"
	case *Term:
		return x.String()
	case string:
		return fmt.Sprintf("%q", x)
	case *SymStr:
		parts := make([]string, len(x.b))
		for i, t := range x.b {
			parts[i] = t.String()
		}
		return "str[" + strings.Join(parts, ",") + "]"
	case Float:
		return fmt.Sprint(x.f)
	case Pointer:
		if x.c == nil {
			return "nil"
		}
		return fmt.Sprintf("&c%d%v", x.c.id, x.path)
	case *Agg:
		parts := make([]string, len(x.v))
		for i, e := range x.v {
			if i > 16 {
				parts = append(parts[:i], "…")
				break
			}
			parts[i] = showVal(e, d+1)
		}
		return "{" + strings.Join(parts, " ") + "}"
	case Slice:
		if x.arr == nil {
			return "[]nil"
		}
		a := x.arr.v.(*Agg)
		parts := []string{}
		for i := 0; i < x.len && i < 16; i++ {
			parts = append(parts, showVal(a.v[x.off+i], d+1))
		}
		return fmt.Sprintf("[len=%d %s]", x.len, strings.Join(parts, " "))
	case *Map:
		if x == nil {
			return "map(nil)"
		}
		return fmt.Sprintf("map#%d(n=%d)", x.id, x.n)
	case Iface:
		if x.t == nil {
			return "iface(nil)"
		}
		return fmt.Sprintf("iface(%s:%s)", x.t, showVal(x.v, d+1))
	case *Closure:
		if x == nil {
			return "func(nil)"
		}
		return "func " + x.fn.String()
	case *Native:
		return "native " + x.name
	case *Chan:
		if x == nil {
			return "chan(nil)"
		}
		return fmt.Sprintf("chan#%d", x.id)
	case Tuple:
		parts := make([]string, len(x))
		for i, e := range x {
			parts[i] = showVal(e, d+1)
		}
		return "(" + strings.Join(parts, ", ") + ")"
	case *Opaque:
		return "opaque:" + x.what
	}
	return fmt.Sprintf("%T", v)
}


// force expands a lazy string into string / *SymStr (forking on digit counts of symbolic ints).
func (in *Interp) force(l *LazyStr) Value {
	if l.forced != nil {
		return l.forced
	}
	var bs []*Term
	for _, p := range l.parts {
		switch x := p.(type) {
		case *lazyItoa:
			if x.forced == nil {
				x.forced = in.itoaSym(in.cur, x.n)
			}
			bs = append(bs, in.strBytes(x.forced)...)
		default:
			bs = append(bs, in.strBytes(x)...)
		}
	}
	l.forced = in.mkStr(bs)
	return l.forced
}

// itoaSym renders a symbolic 64-bit signed integer in decimal without division: it forks on
// sign and digit count and introduces one fresh byte per digit, tied to n by a linear equation.
func (in *Interp) itoaSym(th *Thread, n *Term) Value {
	st := in.st
	if n.IsConst() {
		return fmt.Sprint(n.S())
	}
	neg := in.branch(th, st.Cmp(OpSlt, n, st.Const(64, 0)), "itoa-sign")
	mag := n
	if neg {
		mag = st.Un(OpNeg, n)
	}
	k := 1
	pow := uint64(10)
	for k < 19 {
		lt := st.Cmp(OpUlt, mag, st.Const(64, pow))
		var small bool
		if lt.IsConst() {
			small = lt.k != 0
		} else {
			small = in.branch(th, lt, "itoa-digits")
		}
		if small {
			break
		}
		k++
		pow *= 10
	}
	var bs []*Term
	if neg {
		bs = append(bs, st.Const(8, '-'))
	}
	sum := st.Const(64, 0)
	for i := 0; i < k; i++ {
		c := in.freshVar(8, "itoa")
		lo := st.Const(8, '0')
		if i == 0 && k > 1 {
			lo = st.Const(8, '1')
		}
		in.pc = append(in.pc, st.And(st.Cmp(OpUle, lo, c), st.Cmp(OpUle, c, st.Const(8, '9'))))
		d := st.ZExt(st.Bin(OpSub, c, st.Const(8, '0')), 64)
		sum = st.Bin(OpAdd, st.Bin(OpMul, sum, st.Const(64, 10)), d)
		bs = append(bs, c)
	}
	in.pc = append(in.pc, st.Eq(sum, mag))
	return in.mkStr(bs)
}
