package main

// Threads, channels, select, timers and the scheduler.

import (
	"fmt"
	"go/types"
	"sort"

	"golang.org/x/tools/go/ssa"
)

type waiter struct {
	th      *Thread
	sel     *selWait // nil for a plain send/recv
	caseIdx int
	val     Value // value to send
	done    bool
	// completion for plain ops
	complete func(v Value, ok bool)
}

type selWait struct {
	done     bool
	complete func(idx int, v Value, ok bool)
	waiters  []*waiter
}

type Chan struct {
	id     int
	cap    int
	buf    []Value
	closed bool
	recvq  []*waiter
	sendq  []*waiter
	elemT  types.Type
	name   string
}

type Timer struct {
	id       int
	deadline int64
	period   int64 // ticker period (0 = one-shot)
	ch       *Chan
	fn       Value // AfterFunc closure
	active   bool
	fires    int
	cell     *Cell // the time.Timer / time.Ticker object
}

func (in *Interp) newChan(n int) *Chan {
	in.cellSeq++
	return &Chan{id: in.cellSeq, cap: n}
}

func (w *waiter) live() bool {
	if w.done {
		return false
	}
	if w.sel != nil && w.sel.done {
		return false
	}
	return true
}

func firstLive(q *[]*waiter) *waiter {
	for len(*q) > 0 {
		w := (*q)[0]
		if w.live() {
			return w
		}
		*q = (*q)[1:]
	}
	return nil
}

func (in *Interp) wake(th *Thread) {
	th.status = Runnable
	th.cond = nil
	th.blockDesc = ""
}

// fulfil completes a waiting operation with value v.
func (in *Interp) fulfil(w *waiter, v Value, ok bool) {
	if w.sel != nil {
		w.sel.done = true
		w.sel.complete(w.caseIdx, v, ok)
	} else {
		w.done = true
		w.complete(v, ok)
	}
	in.wake(w.th)
}

// trySend attempts a non-blocking send; returns true if it completed.
func (in *Interp) trySend(th *Thread, ch *Chan, v Value) bool {
	if ch.closed {
		in.panicRT(th, "send on closed channel")
	}
	if r := firstLive(&ch.recvq); r != nil {
		ch.recvq = ch.recvq[1:]
		in.fulfil(r, copyVal(v), true)
		return true
	}
	if len(ch.buf) < ch.cap {
		ch.buf = append(ch.buf, copyVal(v))
		return true
	}
	return false
}

// tryRecv attempts a non-blocking receive.
func (in *Interp) tryRecv(th *Thread, ch *Chan) (Value, bool, bool) {
	if len(ch.buf) > 0 {
		v := ch.buf[0]
		ch.buf = ch.buf[1:]
		// a blocked sender can now move its value into the buffer
		if s := firstLive(&ch.sendq); s != nil {
			ch.sendq = ch.sendq[1:]
			ch.buf = append(ch.buf, s.val)
			in.fulfil(s, nil, true)
		}
		return v, true, true
	}
	if s := firstLive(&ch.sendq); s != nil {
		ch.sendq = ch.sendq[1:]
		v := s.val
		in.fulfil(s, nil, true)
		return v, true, true
	}
	if ch.closed {
		return nil, false, true
	}
	return nil, false, false
}

func (in *Interp) closeChan(th *Thread, ch *Chan) {
	if ch == nil {
		in.panicRT(th, "close of nil channel")
	}
	if ch.closed {
		in.panicRT(th, "close of closed channel")
	}
	ch.closed = true
	for _, r := range ch.recvq {
		if r.live() {
			in.fulfil(r, nil, false)
		}
	}
	ch.recvq = nil
	// blocked senders panic when they are resumed
	for _, s := range ch.sendq {
		if s.live() {
			if s.sel != nil {
				s.sel.done = true
			} else {
				s.done = true
			}
			sth := s.th
			in.wake(sth)
			sth.panicOnResume = "send on closed channel"
		}
	}
	ch.sendq = nil
}

func (in *Interp) block(th *Thread, desc string) {
	th.status = Blocked
	th.blockDesc = desc
}

func (in *Interp) execSend(th *Thread, fr *Frame, x *ssa.Send) {
	ch := in.get(fr, x.Chan).(*Chan)
	v := in.get(fr, x.X)
	if ch == nil {
		in.block(th, "send on nil channel")
		th.cond = func() bool { return false }
		return
	}
	if in.trySend(th, ch, v) {
		fr.pc++
		return
	}
	w := &waiter{th: th, val: copyVal(v)}
	w.complete = func(Value, bool) { fr.pc++ }
	ch.sendq = append(ch.sendq, w)
	in.block(th, fmt.Sprintf("send chan#%d", ch.id))
}

func (in *Interp) execRecv(th *Thread, fr *Frame, x *ssa.UnOp, ch *Chan) {
	if ch == nil {
		in.block(th, "recv on nil channel")
		th.cond = func() bool { return false }
		return
	}
	et := x.X.Type().Underlying().(*types.Chan).Elem()
	deliver := func(v Value, ok bool) {
		if !ok {
			v = in.zero(et)
		}
		if x.CommaOk {
			in.set(fr, x, Tuple{v, in.st.Bool(ok)})
		} else {
			in.set(fr, x, v)
		}
		fr.pc++
	}
	if v, ok, done := in.tryRecv(th, ch); done {
		deliver(v, ok)
		return
	}
	w := &waiter{th: th}
	w.complete = deliver
	ch.recvq = append(ch.recvq, w)
	in.block(th, fmt.Sprintf("recv chan#%d", ch.id))
}

func (in *Interp) execSelect(th *Thread, fr *Frame, x *ssa.Select) {
	n := len(x.States)
	chans := make([]*Chan, n)
	vals := make([]Value, n)
	for i, s := range x.States {
		chans[i] = in.get(fr, s.Chan).(*Chan)
		if s.Dir == types.SendOnly {
			vals[i] = in.get(fr, s.Send)
		}
	}
	// result tuple: (index, recvOk, r_0 ... r_{k-1}) for the receive cases in order
	mkResult := func(idx int, v Value, ok bool) Tuple {
		t := Tuple{in.st.Const(64, uint64(int64(idx))), in.st.Bool(ok)}
		for i, s := range x.States {
			if s.Dir == types.RecvOnly {
				et := s.Chan.Type().Underlying().(*types.Chan).Elem()
				if i == idx && ok {
					t = append(t, v)
				} else {
					t = append(t, in.zero(et))
				}
			}
		}
		return t
	}
	// ready cases
	var ready []int
	for i, s := range x.States {
		ch := chans[i]
		if ch == nil {
			continue
		}
		if s.Dir == types.SendOnly {
			if ch.closed || firstLive(&ch.recvq) != nil || len(ch.buf) < ch.cap {
				ready = append(ready, i)
			}
		} else {
			if len(ch.buf) > 0 || firstLive(&ch.sendq) != nil || ch.closed {
				ready = append(ready, i)
			}
		}
	}
	if len(ready) > 0 {
		pick := ready[0]
		if len(ready) > 1 {
			pick = ready[in.schedChoice(len(ready), "select")]
		}
		s := x.States[pick]
		if s.Dir == types.SendOnly {
			if !in.trySend(th, chans[pick], vals[pick]) {
				panic("select: ready send failed")
			}
			in.set(fr, x, mkResult(pick, nil, false))
		} else {
			v, ok, done := in.tryRecv(th, chans[pick])
			if !done {
				panic("select: ready recv failed")
			}
			in.set(fr, x, mkResult(pick, v, ok))
		}
		fr.pc++
		return
	}
	if !x.Blocking {
		in.set(fr, x, mkResult(-1, nil, false))
		fr.pc++
		return
	}
	sw := &selWait{}
	sw.complete = func(idx int, v Value, ok bool) {
		in.set(fr, x, mkResult(idx, v, ok))
		fr.pc++
	}
	any := false
	for i, s := range x.States {
		ch := chans[i]
		if ch == nil {
			continue
		}
		any = true
		w := &waiter{th: th, sel: sw, caseIdx: i}
		if s.Dir == types.SendOnly {
			w.val = copyVal(vals[i])
			ch.sendq = append(ch.sendq, w)
		} else {
			ch.recvq = append(ch.recvq, w)
		}
		sw.waiters = append(sw.waiters, w)
	}
	in.block(th, "select")
	if !any {
		th.cond = func() bool { return false }
	}
}

// ---------- threads ----------

func (in *Interp) newThread(name string) *Thread {
	th := &Thread{id: in.threadSeq, name: name}
	in.threadSeq++
	in.threads = append(in.threads, th)
	return th
}

func (in *Interp) spawn(parent *Thread, fv Value, args []Value, site ssa.Instruction) {
	name := "go"
	var th *Thread
	switch f := fv.(type) {
	case *Closure:
		name = f.fn.String()
		th = in.newThread(name)
		in.invokeFn(th, nil, f.fn, args, f.env, nil, false)
	case *Native:
		th = in.newThread(f.name)
		in.callNative(th, nil, f, args, nil, false)
	default:
		panic(fmt.Sprintf("spawn %T", fv))
	}
	if th.top == nil {
		th.status = Done
	}
	if len(in.threads) > in.prog.maxThreads {
		in.fail("unwind", fmt.Sprintf("more than %d threads", in.prog.maxThreads))
	}
}

// isVisible reports whether ins is a scheduling point.
func (in *Interp) isVisible(fr *Frame, ins ssa.Instruction) bool {
	switch x := ins.(type) {
	case *ssa.Send, *ssa.Select, *ssa.Go:
		return true
	case *ssa.UnOp:
		return x.Op.String() == "<-"
	case *ssa.Call:
		if b, ok := x.Call.Value.(*ssa.Builtin); ok {
			return b.Name() == "close"
		}
		if f := x.Call.StaticCallee(); f != nil {
			return in.prog.visibleFn[f]
		}
	}
	return false
}

// ---------- scheduler ----------

func (in *Interp) enabled(th *Thread) bool {
	switch th.status {
	case Runnable:
		return true
	case Blocked:
		return th.cond != nil && th.cond()
	}
	return false
}

// schedChoice asks for a scheduling alternative; alternatives other than 0 cost one delay.
func (in *Interp) schedChoice(n int, why string) int {
	if n <= 1 {
		return 0
	}
	if in.delays >= in.delayBound {
		return 0 // out of delay budget: canonical choice (deterministic given the prefix)
	}
	d := in.decide(Decision{Kind: 'S', N: n}, why)
	if d.Choice != 0 {
		in.delays++
	}
	return d.Choice
}

// runAll drives all threads until the main thread finishes or nothing can run.
func (in *Interp) runAll(main *Thread) {
	cur := main
	for {
		if main.status == Done {
			return
		}
		// candidate order: current thread first (if enabled), then the others round-robin by id
		var cands []*Thread
		n := len(in.threads)
		start := 0
		for i, t := range in.threads {
			if t == cur {
				start = i
			}
		}
		for k := 0; k < n; k++ {
			t := in.threads[(start+k)%n]
			if in.enabled(t) {
				cands = append(cands, t)
			}
		}
		// timers are environment events: canonical order puts them last
		armed := in.armedTimers()
		total := len(cands) + len(armed)
		if total == 0 {
			in.deadlock(main)
			return
		}
		pick := 0
		if in.schedOn && total > 1 {
			pick = in.schedChoice(total, "sched")
		}
		if pick >= len(cands) {
			in.fireTimer(armed[pick-len(cands)])
			continue
		}
		th := cands[pick]
		cur = th
		if th.status == Blocked {
			in.wake(th)
		}
		if th.panicOnResume != "" {
			msg := th.panicOnResume
			th.panicOnResume = ""
			func() {
				defer func() {
					if e := recover(); e != nil {
						if _, ok := e.(unwindSignal); !ok {
							panic(e)
						}
					}
				}()
				in.panicRT(th, msg)
			}()
			in.continueUnwind(th, true)
			if th.top == nil {
				th.status = Done
				continue
			}
		}
		in.cur = th
		in.schedOn = len(in.threads) > 1
		in.runThread(th)
	}
}

func (in *Interp) deadlock(main *Thread) {
	desc := ""
	for _, t := range in.threads {
		if t.status == Blocked {
			where := ""
			if t.top != nil {
				where = t.top.fn.String()
			}
			desc += fmt.Sprintf("[t%d %s: %s in %s] ", t.id, t.name, t.blockDesc, where)
		}
	}
	site := ""
	if main.top != nil {
		site = in.siteOf(main.top)
	}
	in.recordFailure(main, &Failure{Kind: "deadlock", Label: "deadlock", Site: site, Detail: desc}, nil)
	in.fail("deadlock", desc)
}

func (in *Interp) armedTimers() []*Timer {
	var out []*Timer
	for _, t := range in.timers {
		if t.active && t.fires < in.maxTicks {
			out = append(out, t)
		}
	}
	sort.SliceStable(out, func(i, j int) bool { return out[i].deadline < out[j].deadline })
	return out
}

func (in *Interp) fireTimer(t *Timer) {
	if t.deadline > in.now {
		in.now = t.deadline
	}
	t.fires++
	if t.period > 0 {
		t.deadline = in.now + t.period
	} else {
		t.active = false
	}
	in.events = append(in.events, fmt.Sprintf("timer#%d fires", t.id))
	if t.fn != nil {
		in.spawn(nil, t.fn, nil, nil)
		return
	}
	// non-blocking send of the current time (capacity-1 channel, like the runtime)
	if r := firstLive(&t.ch.recvq); r != nil {
		t.ch.recvq = t.ch.recvq[1:]
		in.fulfil(r, in.timeValue(in.now), true)
	} else if len(t.ch.buf) < t.ch.cap {
		t.ch.buf = append(t.ch.buf, in.timeValue(in.now))
	}
}
