package main

// The harness vocabulary (v* functions) and override plumbing.

import (
	"fmt"
	"go/types"
	"strings"

	"golang.org/x/tools/go/ssa"
)

// globalOverrides redirect library functions to harness Go code (package sarama overlay).
var globalOverrides = map[string]string{
	"fmt.Sprintf":       "vSprintf",
	"fmt.Sprint":        "vSprint",
	"fmt.Sprintln":      "vSprint",
	"fmt.Errorf":        "vErrorf",
	"errors.Is":         "vErrorsIs",
	"sort.Slice":        "vSortSlice",
	"sort.SliceStable":  "vSortSlice",
	"github.com/rcrowley/go-metrics.NewRegistry":          "vNewRegistry",
	"github.com/rcrowley/go-metrics.GetOrRegisterMeter":   "vGetOrRegisterMeter",
	"github.com/rcrowley/go-metrics.GetOrRegisterCounter": "vGetOrRegisterCounter",
	"github.com/rcrowley/go-metrics.NewMeter":             "vNewMeter",
	"github.com/rcrowley/go-metrics.NewCounter":           "vNewCounter",
	"github.com/rcrowley/go-metrics.NewHistogram":         "vNewHistogram",
	"github.com/rcrowley/go-metrics.NewExpDecaySample":    "vNewSample",
	targetPath + ".getOrRegisterHistogram":                "vGetOrRegisterHistogram",
	targetPath + ".compress":                              "vCompress",
	targetPath + ".decompress":                            "vDecompress",
}

func (in *Interp) dynOverride(fn *ssa.Function) (Value, bool) {
	if len(in.dynOv) == 0 {
		return nil, false
	}
	v, ok := in.dynOv[fn]
	return v, ok
}

func strArg(v Value) string {
	if l, ok := v.(*LazyStr); ok {
		if l.forced != nil {
			v = l.forced
		} else {
			return "<formatted>"
		}
	}
	s, ok := v.(string)
	if !ok {
		panic(fmt.Sprintf("harness API: expected concrete string, got %T", v))
	}
	return s
}

func (in *Interp) intArg(th *Thread, v Value) int {
	t := v.(*Term)
	if !t.IsConst() {
		in.fail("unsupported", "harness API: symbolic integer parameter")
	}
	return int(t.S())
}

func regAPI(name string, f nativeFn) { nativeTable["api."+name] = f }

func init() {
	for _, x := range []struct {
		n string
		w uint8
	}{{"vInt64", 64}, {"vInt32", 32}, {"vInt16", 16}, {"vInt8", 8}, {"vUint64", 64}, {"vUint32", 32},
		{"vUint16", 16}, {"vByte", 8}, {"vInt", 64}, {"vBool", 0}} {
		x := x
		regAPI(x.n, func(in *Interp, th *Thread, fr *Frame, args []Value, call ssa.Instruction) (Value, ctl) {
			return in.freshVar(x.w, strArg(args[0])), ctlNext
		})
	}
	regAPI("vBytes", func(in *Interp, th *Thread, fr *Frame, args []Value, call ssa.Instruction) (Value, ctl) {
		n := in.intArg(th, args[1])
		s := in.makeSlice(types.Typ[types.Uint8], n, n)
		a := s.arr.v.(*Agg)
		for i := 0; i < n; i++ {
			a.v[i] = in.freshVar(8, fmt.Sprintf("%s[%d]", strArg(args[0]), i))
		}
		return s, ctlNext
	})
	regAPI("vString", func(in *Interp, th *Thread, fr *Frame, args []Value, call ssa.Instruction) (Value, ctl) {
		n := in.intArg(th, args[1])
		bs := make([]*Term, n)
		for i := range bs {
			bs[i] = in.freshVar(8, fmt.Sprintf("%s[%d]", strArg(args[0]), i))
		}
		return in.mkStr(bs), ctlNext
	})
	regAPI("vChoose", func(in *Interp, th *Thread, fr *Frame, args []Value, call ssa.Instruction) (Value, ctl) {
		n := in.intArg(th, args[1])
		if n <= 0 {
			in.fail("assume", "vChoose(0)")
		}
		name := strArg(args[0])
		var c int
		if in.concrete != nil && !in.inPrefix() {
			c = 0
		} else {
			c = in.choose('C', n, name)
		}
		in.events = append(in.events, fmt.Sprintf("%s=%d", name, c))
		return in.st.Const(64, uint64(c)), ctlNext
	})
	regAPI("vAssume", func(in *Interp, th *Thread, fr *Frame, args []Value, call ssa.Instruction) (Value, ctl) {
		in.assume(th, args[0].(*Term))
		return nil, ctlNext
	})
	regAPI("vAssert", func(in *Interp, th *Thread, fr *Frame, args []Value, call ssa.Instruction) (Value, ctl) {
		in.doAssert(th, fr, args[0].(*Term), strArg(args[1]))
		return nil, ctlNext
	})
	regAPI("vCover", func(in *Interp, th *Thread, fr *Frame, args []Value, call ssa.Instruction) (Value, ctl) {
		label := strArg(args[0])
		c := args[1].(*Term)
		if in.inPrefix() {
			return nil, ctlNext
		}
		h := in.harness
		h.mu.Lock()
		seen := h.covers[label] > 0
		h.mu.Unlock()
		if !seen || c.IsConst() {
			ok := false
			if c.IsConst() {
				ok = c.k != 0
			} else {
				r, _ := in.check(c, nil)
				ok = r == Sat
			}
			if ok {
				h.mu.Lock()
				h.covers[label]++
				h.mu.Unlock()
			} else {
				h.mu.Lock()
				if _, present := h.covers[label]; !present {
					h.covers[label] = 0
				}
				h.mu.Unlock()
			}
		}
		return nil, ctlNext
	})
	regAPI("vReach", func(in *Interp, th *Thread, fr *Frame, args []Value, call ssa.Instruction) (Value, ctl) {
		in.reached = true
		return nil, ctlNext
	})
	regAPI("vTier", func(in *Interp, th *Thread, fr *Frame, args []Value, call ssa.Instruction) (Value, ctl) {
		return in.st.Const(64, uint64(in.tier)), ctlNext
	})
	regAPI("vConfig", func(in *Interp, th *Thread, fr *Frame, args []Value, call ssa.Instruction) (Value, ctl) {
		key, val := strArg(args[0]), in.intArg(th, args[1])
		switch key {
		case "delay":
			in.delayBound = val
		case "ticks":
			in.maxTicks = val
		case "czcap":
			in.czCap = val
		case "steps":
			in.maxSteps = val
		case "mapperm":
			in.mapPerm = val
		case "loop":
			in.maxLoop = val
		case "hang":
			in.hangIsViolation = val != 0
		case "trace":
			in.trace = val != 0
		default:
			in.fail("internal", "vConfig: unknown key "+key)
		}
		in.harness.mu.Lock()
		in.harness.bounds[key] = val
		in.harness.mu.Unlock()
		return nil, ctlNext
	})
	regAPI("vAllocLimit", func(in *Interp, th *Thread, fr *Frame, args []Value, call ssa.Instruction) (Value, ctl) {
		in.allocLim = int64(in.intArg(th, args[0]))
		return nil, ctlNext
	})
	regAPI("vClass", func(in *Interp, th *Thread, fr *Frame, args []Value, call ssa.Instruction) (Value, ctl) {
		in.failClass = strArg(args[0])
		return nil, ctlNext
	})
	regAPI("vNote", func(in *Interp, th *Thread, fr *Frame, args []Value, call ssa.Instruction) (Value, ctl) {
		in.notes = append(in.notes, strArg(args[0]))
		in.events = append(in.events, strArg(args[0]))
		return nil, ctlNext
	})
	regAPI("vOverride", func(in *Interp, th *Thread, fr *Frame, args []Value, call ssa.Instruction) (Value, ctl) {
		name := strArg(args[0])
		if !strings.Contains(name, "/") && !strings.HasPrefix(name, "(") {
			name = targetPath + "." + name
		} else if strings.HasPrefix(name, "(*") && !strings.Contains(name, "/") {
			name = "(*" + targetPath + "." + name[2:]
		} else if strings.HasPrefix(name, "(") && !strings.Contains(name, "/") {
			name = "(" + targetPath + "." + name[1:]
		}
		fn := in.prog.fnByName[name]
		if fn == nil {
			in.fail("internal", "vOverride: no function "+name)
		}
		f := args[1].(Iface)
		if in.dynOv == nil {
			in.dynOv = map[*ssa.Function]Value{}
		}
		if f.t == nil {
			delete(in.dynOv, fn)
		} else {
			in.dynOv[fn] = f.v
		}
		in.harness.mu.Lock()
		in.harness.assumes["override "+name] = true
		in.harness.mu.Unlock()
		return nil, ctlNext
	})
	regAPI("vSliceLen", func(in *Interp, th *Thread, fr *Frame, args []Value, call ssa.Instruction) (Value, ctl) {
		s := args[0].(Iface).v.(Slice)
		return in.st.Const(64, uint64(s.len)), ctlNext
	})
	regAPI("vSliceSwap", func(in *Interp, th *Thread, fr *Frame, args []Value, call ssa.Instruction) (Value, ctl) {
		s := args[0].(Iface).v.(Slice)
		i, j := in.intArg(th, args[1]), in.intArg(th, args[2])
		a := s.arr.v.(*Agg)
		a.v[s.off+i], a.v[s.off+j] = a.v[s.off+j], a.v[s.off+i]
		return nil, ctlNext
	})
	regAPI("vHeld", func(in *Interp, th *Thread, fr *Frame, args []Value, call ssa.Instruction) (Value, ctl) {
		// vHeld(&mutex or &rwmutex) reports whether it is (write-)locked
		i := args[0].(Iface)
		p := i.v.(Pointer)
		tn := i.t.(*types.Pointer).Elem().String()
		switch tn {
		case "sync.Mutex":
			return in.st.Bool(in.loadInt(th, in.subField(p, in.prog.typeByName(tn), "state")) != 0), ctlNext
		case "sync.RWMutex":
			return in.st.Bool(in.loadInt(th, in.subField(p, in.prog.typeByName(tn), "w", "state")) != 0), ctlNext
		}
		in.fail("internal", "vHeld on "+tn)
		return nil, ctlNext
	})
	regAPI("vRHeld", func(in *Interp, th *Thread, fr *Frame, args []Value, call ssa.Instruction) (Value, ctl) {
		i := args[0].(Iface)
		p := i.v.(Pointer)
		t := in.prog.typeByName("sync.RWMutex")
		r := in.loadInt(th, in.subField(p, t, "readerCount", "v"))
		w := in.loadInt(th, in.subField(p, t, "w", "state"))
		return in.st.Bool(r > 0 || w != 0), ctlNext
	})
	regAPI("vWGCount", func(in *Interp, th *Thread, fr *Frame, args []Value, call ssa.Instruction) (Value, ctl) {
		p := args[0].(Pointer)
		return in.st.Const(64, uint64(in.loadInt(th, in.subField(p, in.prog.typeByName("sync.WaitGroup"), "state", "v")))), ctlNext
	})
	regAPI("vDeadlockOK", func(in *Interp, th *Thread, fr *Frame, args []Value, call ssa.Instruction) (Value, ctl) {
		in.deadlockOK = true
		return nil, ctlNext
	})
	regAPI("vIsSymbolic", func(in *Interp, th *Thread, fr *Frame, args []Value, call ssa.Instruction) (Value, ctl) {
		return in.st.Bool(in.concrete == nil), ctlNext
	})
	regAPI("vCRCCount", func(in *Interp, th *Thread, fr *Frame, args []Value, call ssa.Instruction) (Value, ctl) {
		return in.st.Const(64, uint64(len(in.crcLog))), ctlNext
	})
	// vCRCCovers(k, poly, n): the k-th checksum call used polynomial poly over n bytes
	regAPI("vCRCInfo", func(in *Interp, th *Thread, fr *Frame, args []Value, call ssa.Instruction) (Value, ctl) {
		k := in.intArg(th, args[0])
		if k < 0 || k >= len(in.crcLog) {
			return Tuple{in.st.Const(32, 0), in.st.Const(64, 0)}, ctlNext
		}
		r := in.crcLog[k]
		return Tuple{in.st.Const(32, uint64(r.poly)), in.st.Const(64, uint64(r.n))}, ctlNext
	})
	regAPI("vItoa", func(in *Interp, th *Thread, fr *Frame, args []Value, call ssa.Instruction) (Value, ctl) {
		n := args[0].(*Term)
		if n.IsConst() {
			return fmt.Sprint(n.S()), ctlNext
		}
		return &LazyStr{parts: []Value{&lazyItoa{n: n}}}, ctlNext
	})
	regAPI("vCRCResult", func(in *Interp, th *Thread, fr *Frame, args []Value, call ssa.Instruction) (Value, ctl) {
		k := in.intArg(th, args[0])
		if k < 0 || k >= len(in.crcLog) {
			return in.st.Const(32, 0), ctlNext
		}
		return in.crcLog[k].res, ctlNext
	})
	regAPI("vYield", func(in *Interp, th *Thread, fr *Frame, args []Value, call ssa.Instruction) (Value, ctl) {
		return nil, ctlNext
	})
	visibleNatives["api.vYield"] = true
	regAPI("vNow", func(in *Interp, th *Thread, fr *Frame, args []Value, call ssa.Instruction) (Value, ctl) {
		return in.st.Const(64, uint64(in.now)), ctlNext
	})
	regAPI("vThreads", func(in *Interp, th *Thread, fr *Frame, args []Value, call ssa.Instruction) (Value, ctl) {
		n := 0
		for _, t := range in.threads {
			if t.status != Done {
				n++
			}
		}
		return in.st.Const(64, uint64(n)), ctlNext
	})
}

// doAssert checks c under the path condition.
func (in *Interp) doAssert(th *Thread, fr *Frame, c *Term, label string) {
	h := in.harness
	if c.IsConst() {
		if c.k != 0 {
			if !in.inPrefix() {
				h.mu.Lock()
				h.asserts[label]++
				h.mu.Unlock()
			}
			return
		}
		if !in.inPrefix() {
			in.recordFailure(th, &Failure{Kind: "assert", Label: label, Site: in.callerSite(fr), Detail: "assertion is false on this path"}, nil)
		}
		in.fail("fail-stop", label)
	}
	if !in.inPrefix() {
		nc := in.st.Not(c)
		r, _ := in.check(nc, nil)
		switch r {
		case Unsat:
			h.mu.Lock()
			h.asserts[label]++
			h.mu.Unlock()
		case Sat:
			in.recordFailure(th, &Failure{Kind: "assert", Label: label, Site: in.callerSite(fr), Detail: "assertion can fail"}, nc)
			// continue on the side where it holds, if any
			r2, _ := in.check(c, nil)
			if r2 == Unsat {
				in.fail("fail-stop", label)
			}
		default:
			in.inconclusive("assert " + label + ": solver unknown")
		}
	}
	in.pc = append(in.pc, c)
}

func (in *Interp) callerSite(fr *Frame) string {
	if fr == nil {
		return ""
	}
	return fr.fn.Name()
}
