package main

// The harness vocabulary (v* functions) and override plumbing.

import (
	"fmt"
	"os"
	"go/types"
	"strings"

	"golang.org/x/tools/go/ssa"
)

// globalOverrides redirect library functions to harness Go code (package sarama overlay).
var globalOverrides = map[string]string{
	"fmt.Sprintf":       "vSprintf",
	"fmt.Sprint":        "vSprint",
	"fmt.Sprintln":      "vSprint",
	"fmt.Errorf":        "vErrorf",
	"errors.Is":         "vErrorsIs",
	"sort.Slice":        "vSortSlice",
	"sort.SliceStable":  "vSortSlice",
	"github.com/rcrowley/go-metrics.NewRegistry":          "vNewRegistry",
	"github.com/rcrowley/go-metrics.GetOrRegisterMeter":   "vGetOrRegisterMeter",
	"github.com/rcrowley/go-metrics.GetOrRegisterCounter": "vGetOrRegisterCounter",
	"github.com/rcrowley/go-metrics.NewMeter":             "vNewMeter",
	"github.com/rcrowley/go-metrics.NewCounter":           "vNewCounter",
	"github.com/rcrowley/go-metrics.NewHistogram":         "vNewHistogram",
	"github.com/rcrowley/go-metrics.NewExpDecaySample":    "vNewSample",
	targetPath + ".getOrRegisterHistogram":                "vGetOrRegisterHistogram",
	targetPath + ".compress":                              "vCompress",
	targetPath + ".decompress":                            "vDecompress",
}

func (in *Interp) dynOverride(fn *ssa.Function) (Value, bool) {
	if len(in.dynOv) == 0 {
		return nil, false
	}
	v, ok := in.dynOv[fn]
	return v, ok
}

func strArg(v Value) string {
	if l, ok := v.(*LazyStr); ok {
		if l.forced != nil {
			v = l.forced
		} else {
			return "<formatted>"
		}
	}
	s, ok := v.(string)
	if !ok {
		panic(fmt.Sprintf("harness API: expected concrete string, got %T", v))
	}
	return s
}

func (in *Interp) intArg(th *Thread, v Value) int {
	t := v.(*Term)
	if !t.IsConst() {
		in.fail("unsupported", "harness API: symbolic integer parameter")
	}
	return int(t.S())
}

func regAPI(name string, f nativeFn) { nativeTable["api."+name] = f }

func init() {
	for _, x := range []struct {
		n string
		w uint8
	}{{"vInt64", 64}, {"vInt32", 32}, {"vInt16", 16}, {"vInt8", 8}, {"vUint64", 64}, {"vUint32", 32},
		{"vUint16", 16}, {"vByte", 8}, {"vInt", 64}, {"vBool", 0}} {
		x := x
		regAPI(x.n, func(in *Interp, th *Thread, fr *Frame, args []Value, call ssa.Instruction) (Value, ctl) {
			return in.freshVar(x.w, strArg(args[0])), ctlNext
		})
	}
	regAPI("vBytes", func(in *Interp, th *Thread, fr *Frame, args []Value, call ssa.Instruction) (Value, ctl) {
		n := in.intArg(th, args[1])
		s := in.makeSlice(types.Typ[types.Uint8], n, n)
		a := s.arr.v.(*Agg)
		for i := 0; i < n; i++ {
			a.v[i] = in.freshVar(8, fmt.Sprintf("%s[%d]", strArg(args[0]), i))
		}
		return s, ctlNext
	})
	regAPI("vString", func(in *Interp, th *Thread, fr *Frame, args []Value, call ssa.Instruction) (Value, ctl) {
		n := in.intArg(th, args[1])
		bs := make([]*Term, n)
		for i := range bs {
			bs[i] = in.freshVar(8, fmt.Sprintf("%s[%d]", strArg(args[0]), i))
		}
		return in.mkStr(bs), ctlNext
	})
	regAPI("vChoose", func(in *Interp, th *Thread, fr *Frame, args []Value, call ssa.Instruction) (Value, ctl) {
		n := in.intArg(th, args[1])
		if n <= 0 {
			in.fail("assume", "vChoose(0)")
		}
		name := strArg(args[0])
		var c int
		if in.concrete != nil && !in.inPrefix() {
			c = 0
		} else {
			c = in.choose('C', n, name)
		}
		in.events = append(in.events, fmt.Sprintf("%s=%d", name, c))
		return in.st.Const(64, uint64(c)), ctlNext
	})
	regAPI("vAssume", func(in *Interp, th *Thread, fr *Frame, args []Value, call ssa.Instruction) (Value, ctl) {
		in.assume(th, args[0].(*Term))
		return nil, ctlNext
	})
	regAPI("vAssert", func(in *Interp, th *Thread, fr *Frame, args []Value, call ssa.Instruction) (Value, ctl) {
		in.doAssert(th, fr, args[0].(*Term), strArg(args[1]))
		return nil, ctlNext
	})
	regAPI("vCover", func(in *Interp, th *Thread, fr *Frame, args []Value, call ssa.Instruction) (Value, ctl) {
		label := strArg(args[0])
		c := args[1].(*Term)
		if in.inPrefix() {
			return nil, ctlNext
		}
		h := in.harness
		h.mu.Lock()
		seen := h.covers[label] > 0
		h.mu.Unlock()
		if !seen || c.IsConst() {
			ok := false
			if c.IsConst() {
				ok = c.k != 0
			} else {
				r, _ := in.check(c, nil)
				ok = r == Sat
			}
			if ok {
				h.mu.Lock()
				h.covers[label]++
				h.mu.Unlock()
			} else {
				h.mu.Lock()
				if _, present := h.covers[label]; !present {
					h.covers[label] = 0
				}
				h.mu.Unlock()
			}
		}
		return nil, ctlNext
	})
	regAPI("vReach", func(in *Interp, th *Thread, fr *Frame, args []Value, call ssa.Instruction) (Value, ctl) {
		in.reached = true
		return nil, ctlNext
	})
	regAPI("vTier", func(in *Interp, th *Thread, fr *Frame, args []Value, call ssa.Instruction) (Value, ctl) {
		return in.st.Const(64, uint64(in.tier)), ctlNext
	})
	regAPI("vConfig", func(in *Interp, th *Thread, fr *Frame, args []Value, call ssa.Instruction) (Value, ctl) {
		key, val := strArg(args[0]), in.intArg(th, args[1])
		switch key {
		case "delay":
			in.delayBound = val
		case "ticks":
			in.maxTicks = val
		case "czcap":
			in.czCap = val
		case "steps":
			in.maxSteps = val
		case "mapperm":
			in.mapPerm = val
		case "loop":
			in.maxLoop = val
		case "hang":
			in.hangIsViolation = val != 0
		case "trace":
			in.trace = val != 0
		default:
			in.fail("internal", "vConfig: unknown key "+key)
		}
		in.harness.mu.Lock()
		in.harness.bounds[key] = val
		in.harness.mu.Unlock()
		return nil, ctlNext
	})
	regAPI("vAllocLimit", func(in *Interp, th *Thread, fr *Frame, args []Value, call ssa.Instruction) (Value, ctl) {
		in.allocLim = int64(in.intArg(th, args[0]))
		return nil, ctlNext
	})
	regAPI("vClass", func(in *Interp, th *Thread, fr *Frame, args []Value, call ssa.Instruction) (Value, ctl) {
		in.failClass = strArg(args[0])
		return nil, ctlNext
	})
	regAPI("vNote", func(in *Interp, th *Thread, fr *Frame, args []Value, call ssa.Instruction) (Value, ctl) {
		in.notes = append(in.notes, strArg(args[0]))
		in.events = append(in.events, strArg(args[0]))
		return nil, ctlNext
	})
	regAPI("vOverride", func(in *Interp, th *Thread, fr *Frame, args []Value, call ssa.Instruction) (Value, ctl) {
		name := strArg(args[0])
		if !strings.Contains(name, "/") && !strings.HasPrefix(name, "(") {
			name = targetPath + "." + name
		} else if strings.HasPrefix(name, "(*") && !strings.Contains(name, "/") {
			name = "(*" + targetPath + "." + name[2:]
		} else if strings.HasPrefix(name, "(") && !strings.Contains(name, "/") {
			name = "(" + targetPath + "." + name[1:]
		}
		fn := in.prog.fnByName[name]
		if fn == nil {
			in.fail("internal", "vOverride: no function "+name)
		}
		f := args[1].(Iface)
		if in.dynOv == nil {
			in.dynOv = map[*ssa.Function]Value{}
		}
		if f.t == nil {
			delete(in.dynOv, fn)
		} else {
			in.dynOv[fn] = f.v
		}
		in.harness.mu.Lock()
		in.harness.assumes["override "+name] = true
		in.harness.mu.Unlock()
		return nil, ctlNext
	})
	regAPI("vSliceLen", func(in *Interp, th *Thread, fr *Frame, args []Value, call ssa.Instruction) (Value, ctl) {
		s := args[0].(Iface).v.(Slice)
		return in.st.Const(64, uint64(s.len)), ctlNext
	})
	regAPI("vSliceSwap", func(in *Interp, th *Thread, fr *Frame, args []Value, call ssa.Instruction) (Value, ctl) {
		s := args[0].(Iface).v.(Slice)
		i, j := in.intArg(th, args[1]), in.intArg(th, args[2])
		a := s.arr.v.(*Agg)
		a.v[s.off+i], a.v[s.off+j] = a.v[s.off+j], a.v[s.off+i]
		return nil, ctlNext
	})
	regAPI("vHeld", func(in *Interp, th *Thread, fr *Frame, args []Value, call ssa.Instruction) (Value, ctl) {
		// vHeld(&mutex or &rwmutex) reports whether it is (write-)locked
		i := args[0].(Iface)
		p := i.v.(Pointer)
		tn := i.t.(*types.Pointer).Elem().String()
		switch tn {
		case "sync.Mutex":
			return in.st.Bool(in.loadInt(th, in.subField(p, in.prog.typeByName(tn), "state")) != 0), ctlNext
		case "sync.RWMutex":
			return in.st.Bool(in.loadInt(th, in.subField(p, in.prog.typeByName(tn), "w", "state")) != 0), ctlNext
		}
		in.fail("internal", "vHeld on "+tn)
		return nil, ctlNext
	})
	regAPI("vRHeld", func(in *Interp, th *Thread, fr *Frame, args []Value, call ssa.Instruction) (Value, ctl) {
		i := args[0].(Iface)
		p := i.v.(Pointer)
		t := in.prog.typeByName("sync.RWMutex")
		r := in.loadInt(th, in.subField(p, t, "readerCount", "v"))
		w := in.loadInt(th, in.subField(p, t, "w", "state"))
		return in.st.Bool(r > 0 || w != 0), ctlNext
	})
	regAPI("vWGCount", func(in *Interp, th *Thread, fr *Frame, args []Value, call ssa.Instruction) (Value, ctl) {
		p := args[0].(Pointer)
		return in.st.Const(64, uint64(in.loadInt(th, in.subField(p, in.prog.typeByName("sync.WaitGroup"), "state", "v")))), ctlNext
	})
	regAPI("vDeadlockOK", func(in *Interp, th *Thread, fr *Frame, args []Value, call ssa.Instruction) (Value, ctl) {
		in.deadlockOK = true
		return nil, ctlNext
	})
	regAPI("vIsSymbolic", func(in *Interp, th *Thread, fr *Frame, args []Value, call ssa.Instruction) (Value, ctl) {
		return in.st.Bool(in.concrete == nil), ctlNext
	})
	regAPI("vCRCCount", func(in *Interp, th *Thread, fr *Frame, args []Value, call ssa.Instruction) (Value, ctl) {
		return in.st.Const(64, uint64(len(in.crcLog))), ctlNext
	})
	// vCRCCovers(k, poly, n): the k-th checksum call used polynomial poly over n bytes
	regAPI("vCRCInfo", func(in *Interp, th *Thread, fr *Frame, args []Value, call ssa.Instruction) (Value, ctl) {
		k := in.intArg(th, args[0])
		if k < 0 || k >= len(in.crcLog) {
			return Tuple{in.st.Const(32, 0), in.st.Const(64, 0)}, ctlNext
		}
		r := in.crcLog[k]
		return Tuple{in.st.Const(32, uint64(r.poly)), in.st.Const(64, uint64(r.n))}, ctlNext
	})
	regAPI("vItoa", func(in *Interp, th *Thread, fr *Frame, args []Value, call ssa.Instruction) (Value, ctl) {
		n := args[0].(*Term)
		if n.IsConst() {
			return fmt.Sprint(n.S()), ctlNext
		}
		return &LazyStr{parts: []Value{&lazyItoa{n: n}}}, ctlNext
	})
	regAPI("vCRCResult", func(in *Interp, th *Thread, fr *Frame, args []Value, call ssa.Instruction) (Value, ctl) {
		k := in.intArg(th, args[0])
		if k < 0 || k >= len(in.crcLog) {
			return in.st.Const(32, 0), ctlNext
		}
		return in.crcLog[k].res, ctlNext
	})
	regAPI("vEnvInt", func(in *Interp, th *Thread, fr *Frame, args []Value, call ssa.Instruction) (Value, ctl) {
		v := int64(in.intArg(th, args[1]))
		if s := os.Getenv(strArg(args[0])); s != "" {
			fmt.Sscan(s, &v)
		}
		return in.st.Const(64, uint64(v)), ctlNext
	})
	regAPI("vYield", func(in *Interp, th *Thread, fr *Frame, args []Value, call ssa.Instruction) (Value, ctl) {
		return nil, ctlNext
	})
	visibleNatives["api.vYield"] = true
	regAPI("vNow", func(in *Interp, th *Thread, fr *Frame, args []Value, call ssa.Instruction) (Value, ctl) {
		return in.st.Const(64, uint64(in.now)), ctlNext
	})
	regAPI("vThreads", func(in *Interp, th *Thread, fr *Frame, args []Value, call ssa.Instruction) (Value, ctl) {
		n := 0
		for _, t := range in.threads {
			if t.status != Done {
				n++
			}
		}
		return in.st.Const(64, uint64(n)), ctlNext
	})
}

// doAssert checks c under the path condition.
func (in *Interp) doAssert(th *Thread, fr *Frame, c *Term, label string) {
	h := in.harness
	if in.confirmModel != nil {
		// symbolic replay of a recorded path: evaluate the assertion under the recorded model
		if !c.IsConst() {
			memo := map[int32]uint64{}
			if evalTerm(c, in.confirmModel, memo) == 0 {
				pcOK := true
				for _, p := range in.pc {
					if evalTerm(p, in.confirmModel, memo) == 0 {
						pcOK = false
					}
				}
				if pcOK {
					in.failures = append(in.failures, &Failure{Kind: "assert", Label: label, Site: in.callerSite(fr), Class: in.failClass})
				}
			}
			in.pc = append(in.pc, c)
		} else if c.k == 0 {
			in.failures = append(in.failures, &Failure{Kind: "assert", Label: label, Site: in.callerSite(fr), Class: in.failClass})
			in.fail("fail-stop", label)
		}
		return
	}
	if c.IsConst() {
		if c.k != 0 {
			if !in.inPrefix() {
				h.mu.Lock()
				h.asserts[label]++
				h.mu.Unlock()
			}
			return
		}
		if !in.inPrefix() {
			in.recordFailure(th, &Failure{Kind: "assert", Label: label, Site: in.callerSite(fr), Detail: "assertion is false on this path"}, nil)
		}
		in.fail("fail-stop", label)
	}
	if !in.inPrefix() {
		nc := in.st.Not(c)
		r, _ := in.check(nc, nil)
		switch r {
		case Unsat:
			h.mu.Lock()
			h.asserts[label]++
			h.mu.Unlock()
		case Sat:
			in.recordFailure(th, &Failure{Kind: "assert", Label: label, Site: in.callerSite(fr), Detail: "assertion can fail"}, nc)
			// continue on the side where it holds, if any
			r2, _ := in.check(c, nil)
			if r2 == Unsat {
				in.fail("fail-stop", label)
			}
		default:
			in.inconclusive("assert " + label + ": solver unknown")
		}
	}
	in.pc = append(in.pc, c)
}

func (in *Interp) callerSite(fr *Frame) string {
	if fr == nil {
		return ""
	}
	return fr.fn.Name()
}

// ---------- structural equality for round-trip checks ----------

// deepEq builds a bool term for structural equality. weak=true accepts, at every leaf of b,
// either equality with a or the zero value (fields a version does not carry come back zero).
func (in *Interp) deepEq(th *Thread, a, b Value, weak bool, depth int) *Term {
	st := in.st
	if depth > 24 {
		return st.tt
	}
	switch x := a.(type) {
	case *Term:
		y, ok := b.(*Term)
		if !ok || x.w != y.w {
			return st.ff
		}
		eq := st.Eq(x, y)
		if weak {
			return st.Or(eq, st.Eq(y, st.Const(y.w, 0)))
		}
		return eq
	case Float:
		y, ok := b.(Float)
		return st.Bool(ok && (x.f == y.f || (weak && y.f == 0)))
	case string, *SymStr, *LazyStr:
		switch b.(type) {
		case string, *SymStr, *LazyStr:
		default:
			return st.ff
		}
		if weak && in.strLen(b) == 0 {
			return st.tt
		}
		return in.strEq(a, b)
	case Pointer:
		y, ok := b.(Pointer)
		if !ok {
			return st.ff
		}
		if x.c == nil || y.c == nil {
			if x.c == nil && y.c == nil {
				return st.tt
			}
			if weak {
				return st.tt
			}
			return st.ff
		}
		if ptrEq(x, y) {
			return st.tt
		}
		return in.deepEq(th, in.load(th, x), in.load(th, y), weak, depth+1)
	case *Agg:
		y, ok := b.(*Agg)
		if !ok || len(x.v) != len(y.v) {
			return st.ff
		}
		r := st.tt
		for i := range x.v {
			r = st.And(r, in.deepEq(th, x.v[i], y.v[i], weak, depth+1))
			if r == st.ff {
				return r
			}
		}
		return r
	case Slice:
		y, ok := b.(Slice)
		if !ok {
			return st.ff
		}
		if weak && y.len == 0 {
			return st.tt
		}
		if x.len != y.len {
			return st.ff
		}
		r := st.tt
		xe, ye := in.sliceElems(x), in.sliceElems(y)
		for i := range xe {
			r = st.And(r, in.deepEq(th, xe[i], ye[i], weak, depth+1))
			if r == st.ff {
				return r
			}
		}
		return r
	case *Map:
		y, ok := b.(*Map)
		if !ok {
			return st.ff
		}
		xn, yn := 0, 0
		if x != nil {
			xn = x.n
		}
		if y != nil {
			yn = y.n
		}
		if weak && yn == 0 {
			return st.tt
		}
		if xn != yn {
			return st.ff
		}
		r := st.tt
		if x == nil {
			return r
		}
		for i := range x.keys {
			if !x.live[i] {
				continue
			}
			any := st.ff
			for j := range y.keys {
				if !y.live[j] {
					continue
				}
				any = st.Or(any, st.And(in.deepEq(th, x.keys[i], y.keys[j], false, depth+1), in.deepEq(th, x.vals[i], y.vals[j], weak, depth+1)))
			}
			r = st.And(r, any)
		}
		return r
	case Iface:
		y, ok := b.(Iface)
		if !ok {
			return st.ff
		}
		if x.t == nil || y.t == nil {
			return st.Bool((x.t == nil && y.t == nil) || weak)
		}
		if !types.Identical(x.t, y.t) {
			return st.ff
		}
		return in.deepEq(th, x.v, y.v, weak, depth+1)
	case nil:
		return st.Bool(b == nil)
	}
	// reference-like values (chan, func, map iter, opaque): identity
	return st.Bool(a == b)
}

var eqDebug = os.Getenv("SYMGO_EQDEBUG") != ""

// onWire reports whether any solver variable below v occurs in the encoded bytes.
func (in *Interp) onWire(th *Thread, v Value, wire map[int32]bool, depth int) bool {
	if depth > 24 {
		return false
	}
	switch x := v.(type) {
	case *Term:
		if x.IsConst() {
			return false
		}
		var vs []*Term
		collectVars(x, map[int32]bool{}, &vs)
		for _, t := range vs {
			if wire[t.id] {
				return true
			}
		}
		return false
	case *SymStr:
		for _, b := range x.b {
			if in.onWire(th, b, wire, depth+1) {
				return true
			}
		}
	case *LazyStr:
		return in.onWire(th, in.force(x), wire, depth+1)
	case Pointer:
		if x.c != nil {
			return in.onWire(th, in.load(th, x), wire, depth+1)
		}
	case *Agg:
		for _, e := range x.v {
			if in.onWire(th, e, wire, depth+1) {
				return true
			}
		}
	case Slice:
		for _, e := range in.sliceElems(x) {
			if in.onWire(th, e, wire, depth+1) {
				return true
			}
		}
	case *Map:
		if x != nil {
			for i := range x.keys {
				if x.live[i] && (in.onWire(th, x.keys[i], wire, depth+1) || in.onWire(th, x.vals[i], wire, depth+1)) {
					return true
				}
			}
		}
	case Iface:
		if x.t != nil {
			return in.onWire(th, x.v, wire, depth+1)
		}
	}
	return false
}

// wireEq: every part of a whose variables reached the wire must come back equal in b.
func (in *Interp) wireEq(th *Thread, t types.Type, a, b Value, wire map[int32]bool, depth int) *Term {
	st := in.st
	if depth > 24 || !in.onWire(th, a, wire, 0) {
		return st.tt
	}
	switch x := a.(type) {
	case *Term:
		y, ok := b.(*Term)
		if !ok || x.w != y.w {
			return in.eqFF(1, a, b)
		}
		e := st.Eq(x, y)
		if eqDebug && e != st.tt {
			fmt.Printf("  wireEq leaf differs: %s  vs  %s\n", x, y)
		}
		return e
	case string, *SymStr, *LazyStr:
		switch b.(type) {
		case string, *SymStr, *LazyStr:
			e := in.strEq(a, b)
			if eqDebug && e != st.tt {
				fmt.Printf("  wireEq string differs: %s vs %s\n", showVal(a, 0), showVal(b, 0))
			}
			return e
		}
		return in.eqFF(2, a, b)
	case Pointer:
		y, ok := b.(Pointer)
		if !ok || y.c == nil {
			if eqDebug {
				fmt.Printf("  wireEq pointer nil on decoded side for %s\n", showVal(in.load(th, x), 0))
			}
			return in.eqFF(3, a, b)
		}
		return in.wireEq(th, elemOf(t), in.load(th, x), in.load(th, y), wire, depth+1)
	case *Agg:
		y, ok := b.(*Agg)
		if !ok || len(x.v) != len(y.v) {
			return in.eqFF(4, a, b)
		}
		r := st.tt
		for i := range x.v {
			var ft types.Type
			if t != nil {
				switch u := t.Underlying().(type) {
				case *types.Struct:
					if wireSkipFields[u.Field(i).Name()] {
						continue // encoder-side bookkeeping, not part of the value
					}
					ft = u.Field(i).Type()
				case *types.Array:
					ft = u.Elem()
				}
			}
			r = st.And(r, in.wireEq(th, ft, x.v[i], y.v[i], wire, depth+1))
		}
		return r
	case Slice:
		y, ok := b.(Slice)
		if !ok || x.len != y.len {
			return in.eqFF(5, a, b)
		}
		r := st.tt
		xe, ye := in.sliceElems(x), in.sliceElems(y)
		for i := range xe {
			r = st.And(r, in.wireEq(th, elemOf(t), xe[i], ye[i], wire, depth+1))
		}
		return r
	case *Map:
		y, ok := b.(*Map)
		if !ok || y == nil || x.n != y.n {
			return in.eqFF(6, a, b)
		}
		r := st.tt
		for i := range x.keys {
			if !x.live[i] {
				continue
			}
			any := st.ff
			for j := range y.keys {
				if y.live[j] {
					any = st.Or(any, st.And(in.deepEq(th, x.keys[i], y.keys[j], false, depth+1), in.wireEq(th, elemOf(t), x.vals[i], y.vals[j], wire, depth+1)))
				}
			}
			r = st.And(r, any)
		}
		return r
	case Iface:
		y, ok := b.(Iface)
		if !ok || y.t == nil {
			return in.eqFF(7, a, b)
		}
		return in.wireEq(th, x.t, x.v, y.v, wire, depth+1)
	}
	return st.tt
}

// wireSkipFields are caches the encoders keep inside the values they encode.
var wireSkipFields = map[string]bool{"compressedRecords": true, "recordsLen": true, "compressedSize": true}

func elemOf(t types.Type) types.Type {
	if t == nil {
		return nil
	}
	switch u := t.Underlying().(type) {
	case *types.Pointer:
		return u.Elem()
	case *types.Slice:
		return u.Elem()
	case *types.Array:
		return u.Elem()
	case *types.Map:
		return u.Elem()
	}
	return nil
}

func (in *Interp) eqFF(site int, a, b Value) *Term {
	if eqDebug {
		fmt.Printf("  wireEq structural mismatch #%d: %s  vs  %s\n", site, showVal(a, 1), showVal(b, 1))
	}
	return in.st.ff
}

func init() {
	regAPI("vWireEqual", func(in *Interp, th *Thread, fr *Frame, args []Value, call ssa.Instruction) (Value, ctl) {
		wire := map[int32]bool{}
		var vs []*Term
		seen := map[int32]bool{}
		for _, b := range in.sliceTerms(args[2].(Slice)) {
			collectVars(b, seen, &vs)
		}
		for _, v := range vs {
			wire[v.id] = true
		}
		return in.wireEq(th, args[0].(Iface).t, args[0].(Iface).v, args[1].(Iface).v, wire, 0), ctlNext
	})
	regAPI("vDeepEqual", func(in *Interp, th *Thread, fr *Frame, args []Value, call ssa.Instruction) (Value, ctl) {
		return in.deepEq(th, args[0].(Iface).v, args[1].(Iface).v, false, 0), ctlNext
	})
	regAPI("vWeakEqual", func(in *Interp, th *Thread, fr *Frame, args []Value, call ssa.Instruction) (Value, ctl) {
		return in.deepEq(th, args[0].(Iface).v, args[1].(Iface).v, true, 0), ctlNext
	})
	regAPI("vBytesEqual", func(in *Interp, th *Thread, fr *Frame, args []Value, call ssa.Instruction) (Value, ctl) {
		a, b := in.sliceTerms(args[0].(Slice)), in.sliceTerms(args[1].(Slice))
		return in.strEq(&SymStr{a}, &SymStr{b}), ctlNext
	})
}
