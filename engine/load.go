package main

// Loading /repo (+ harness overlay) into go/ssa; static tables shared by all workers.

import (
	"fmt"
	"go/types"
	"os"
	"path/filepath"
	"sort"
	"strings"
	"sync"
	"time"

	"golang.org/x/tools/go/packages"
	"golang.org/x/tools/go/ssa"
	"golang.org/x/tools/go/ssa/ssautil"
	"golang.org/x/tools/go/types/typeutil"
)

const targetPath = "github.com/Shopify/sarama"

type Program struct {
	prog       *ssa.Program
	pkgs       map[string]*ssa.Package // by path
	targets    map[*ssa.Package]bool
	inits      []*ssa.Function
	harnesses  map[string]*ssa.Function
	natives    map[*ssa.Function]*Native
	nativeImpl map[string]nativeFn
	overrides  map[*ssa.Function]*ssa.Function
	visibleFn  map[*ssa.Function]bool
	fnByName   map[string]*ssa.Function
	errorType  types.Type

	mu        sync.Mutex
	methods   typeutil.Map // types.Type -> map[string]*ssa.Function
	implCache typeutil.Map // types.Type -> map[*types.Interface]bool
	typeCache map[string]types.Type

	maxDepth   int
	maxLoop    int
	maxSteps   int
	maxAlloc   int
	maxThreads int

	loadTime, buildTime time.Duration
	nPkgs, nFuncs       int
	repo                string
	nBodies             int
	genBodies           []byte
	genFill             []byte
}

func (p *Program) isTarget(pkg *ssa.Package) bool { return pkg != nil && p.targets[pkg] }

func isHarnessFn(fn *ssa.Function) bool {
	n := fn.Name()
	if strings.HasPrefix(n, "verifHarness_") {
		return true
	}
	if len(n) > 1 && n[0] == 'v' && n[1] >= 'A' && n[1] <= 'Z' {
		return true
	}
	if fn.Signature.Recv() != nil {
		rt := fn.Signature.Recv().Type()
		if pt, ok := rt.(*types.Pointer); ok {
			rt = pt.Elem()
		}
		if nt, ok := rt.(*types.Named); ok {
			tn := nt.Obj().Name()
			if len(tn) > 1 && tn[0] == 'v' && tn[1] >= 'A' && tn[1] <= 'Z' {
				return true
			}
		}
	}
	if fn.Parent() != nil {
		return isHarnessFn(fn.Parent())
	}
	return false
}

// loadProgram loads the repository with the harness overlay.
func loadProgram(repo, harnessDir string) (*Program, error) {
	t0 := time.Now()
	overlay := map[string][]byte{}
	for _, sub := range []struct{ dir, dst string }{{"sarama", repo}, {"mocks", filepath.Join(repo, "mocks")}} {
		files, _ := filepath.Glob(filepath.Join(harnessDir, sub.dir, "*.go"))
		sort.Strings(files)
		for _, f := range files {
			b, err := os.ReadFile(f)
			if err != nil {
				return nil, err
			}
			overlay[filepath.Join(sub.dst, "zz_verif_"+filepath.Base(f))] = b
		}
	}
	gen, nBodies, err := genBodiesFile(repo)
	if err != nil {
		return nil, fmt.Errorf("body discovery: %v", err)
	}
	overlay[filepath.Join(repo, "zz_verif_gen_bodies.go")] = gen
	bodies, _ := discoverBodies(repo)
	fill, err := genFillFile(repo, harnessDir, bodies)
	if err != nil {
		return nil, fmt.Errorf("generator generation: %v", err)
	}
	overlay[filepath.Join(repo, "zz_verif_gen_fill.go")] = fill
	genFillBytes := fill
	if os.Getenv("SYMGO_DUMPGEN") != "" {
		os.WriteFile(os.Getenv("SYMGO_DUMPGEN"), fill, 0o644)
	}
	cfg := &packages.Config{
		Mode: packages.NeedName | packages.NeedFiles | packages.NeedCompiledGoFiles | packages.NeedImports |
			packages.NeedDeps | packages.NeedTypes | packages.NeedSyntax | packages.NeedTypesInfo | packages.NeedTypesSizes | packages.NeedModule,
		Dir:        repo,
		BuildFlags: []string{"-tags=verif"},
		Overlay:    overlay,
		Env:        append(os.Environ(), "GOFLAGS=-mod=mod", "GOPROXY=off", "GOSUMDB=off", "GOTOOLCHAIN=local", "CGO_ENABLED=0"),
	}
	pkgs, err := packages.Load(cfg, targetPath, targetPath+"/mocks")
	if err != nil {
		return nil, err
	}
	nerr := 0
	packages.Visit(pkgs, nil, func(p *packages.Package) {
		for _, e := range p.Errors {
			if nerr < 20 {
				fmt.Fprintf(os.Stderr, "load error: %s: %v\n", p.PkgPath, e)
			}
			nerr++
		}
	})
	if nerr > 0 {
		return nil, fmt.Errorf("%d package load errors (repository or harness does not compile)", nerr)
	}
	loadT := time.Since(t0)
	t1 := time.Now()
	prog, _ := ssautil.AllPackages(pkgs, ssa.InstantiateGenerics)
	prog.Build()
	p := &Program{prog: prog, pkgs: map[string]*ssa.Package{}, targets: map[*ssa.Package]bool{},
		harnesses: map[string]*ssa.Function{}, natives: map[*ssa.Function]*Native{}, nativeImpl: nativeTable,
		overrides: map[*ssa.Function]*ssa.Function{}, visibleFn: map[*ssa.Function]bool{},
		fnByName: map[string]*ssa.Function{}, typeCache: map[string]types.Type{},
		maxDepth: 200, maxLoop: 4096, maxSteps: 400000, maxAlloc: 1 << 16, maxThreads: 64, repo: repo}
	p.loadTime, p.buildTime = loadT, time.Since(t1)
	p.nBodies = nBodies
	p.genBodies = gen
	p.genFill = genFillBytes
	for _, sp := range prog.AllPackages() {
		p.pkgs[sp.Pkg.Path()] = sp
		p.nPkgs++
	}
	for _, path := range []string{targetPath, targetPath + "/mocks"} {
		sp := p.pkgs[path]
		if sp == nil {
			return nil, fmt.Errorf("package %s not loaded", path)
		}
		p.targets[sp] = true
		if f := sp.Func("init"); f != nil {
			p.inits = append(p.inits, f)
		}
		for name, m := range sp.Members {
			if f, ok := m.(*ssa.Function); ok && strings.HasPrefix(name, "verifHarness_") {
				p.harnesses[name] = f
			}
		}
	}
	p.errorType = types.Universe.Lookup("error").Type()
	// function index, natives, visibility
	all := ssautil.AllFunctions(prog)
	for fn := range all {
		p.nFuncs++
		name := fn.String()
		p.fnByName[name] = fn
		key := name
		// harness API natives are matched by bare name within target packages
		if fn.Pkg != nil && p.targets[fn.Pkg] && fn.Signature.Recv() == nil && fn.Parent() == nil {
			if _, ok := nativeTable["api."+fn.Name()]; ok {
				key = "api." + fn.Name()
			}
		}
		if _, ok := nativeTable[key]; ok {
			p.natives[fn] = &Native{name: key}
			if visibleNatives[key] {
				p.visibleFn[fn] = true
			}
		}
	}
	// global overrides: target function name -> harness function in package sarama
	for from, to := range globalOverrides {
		f := p.fnByName[from]
		t := p.fnByName[targetPath+"."+to]
		if f == nil {
			continue
		}
		if t == nil {
			return nil, fmt.Errorf("override target %s (for %s) not found in harness", to, from)
		}
		p.overrides[f] = t
	}
	return p, nil
}

func (p *Program) typeByName(full string) types.Type {
	p.mu.Lock()
	defer p.mu.Unlock()
	if t, ok := p.typeCache[full]; ok {
		return t
	}
	i := strings.LastIndex(full, ".")
	pkg := p.pkgs[full[:i]]
	if pkg == nil {
		panic("typeByName: no package for " + full)
	}
	m := pkg.Members[full[i+1:]]
	if m == nil {
		panic("typeByName: no type " + full)
	}
	t := m.(*ssa.Type).Type()
	p.typeCache[full] = t
	return t
}

func (p *Program) lookupMethod(t types.Type, m *types.Func) *ssa.Function {
	p.mu.Lock()
	defer p.mu.Unlock()
	var tab map[string]*ssa.Function
	if v := p.methods.At(t); v != nil {
		tab = v.(map[string]*ssa.Function)
	} else {
		tab = map[string]*ssa.Function{}
		p.methods.Set(t, tab)
	}
	key := m.Id()
	if f, ok := tab[key]; ok {
		return f
	}
	sel := p.prog.MethodSets.MethodSet(t).Lookup(m.Pkg(), m.Name())
	var f *ssa.Function
	if sel != nil {
		f = p.prog.MethodValue(sel)
	}
	tab[key] = f
	return f
}

func (p *Program) implements(t types.Type, it *types.Interface) bool {
	p.mu.Lock()
	defer p.mu.Unlock()
	var tab map[*types.Interface]bool
	if v := p.implCache.At(t); v != nil {
		tab = v.(map[*types.Interface]bool)
	} else {
		tab = map[*types.Interface]bool{}
		p.implCache.Set(t, tab)
	}
	if b, ok := tab[it]; ok {
		return b
	}
	b := types.Implements(t, it)
	tab[it] = b
	return b
}

// newErrorString builds an error value of dynamic type *errors.errorString.
func (p *Program) newErrorString(in *Interp, msg string) Value {
	t := p.typeByName("errors.errorString")
	a := in.zero(t).(*Agg)
	a.v[0] = msg
	return Iface{t: types.NewPointer(t), v: Pointer{c: in.newCell(a, "error")}}
}

func (p *Program) runtimeErrorIface(in *Interp, msg string) Value {
	return p.newErrorString(in, msg)
}
