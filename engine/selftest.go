package main

// Selftest facilities (translator validation):
//   -xcheck cvc5,z3   every -xevery-th query is also decided by the named solvers; a sat/unsat
//                     disagreement makes the run inconclusive (exit 2)
//   -natsample N      per harness, the models of up to N completed (assertion-clean) paths are
//                     run against the real build (go test -c -overlay, once) with the same
//                     values: the native run must also pass every assertion and not panic.

import (
	"encoding/json"
	"fmt"
	"os"
	"os/exec"
	"path/filepath"
	"strings"
	"sync"
	"time"
)

type natStats struct {
	Sampled    int      `json:"paths_sampled"`
	Passed     int      `json:"native_passed"`
	EngineOnly int      `json:"harness_uses_engine_only_facility"`
	AssumeFail int      `json:"native_assumption_failed"`
	Disagree   int      `json:"disagreements"`
	Examples   []string `json:"disagreement_examples,omitempty"`
	BuildS     float64  `json:"test_binary_build_s"`
	Note       string   `json:"note,omitempty"`
}

// nativeDifferential runs the sampled path models natively; returns statistics.
func nativeDifferential(o *Options, prog *Program, hs []*Harness, tier int) *natStats {
	st := &natStats{}
	var all []*Failure
	for _, h := range hs {
		if h.Fn.Pkg == nil || h.Fn.Pkg.Pkg.Path() != targetPath {
			continue
		}
		all = append(all, h.natSamples...)
	}
	st.Sampled = len(all)
	if len(all) == 0 {
		st.Note = "no samples (harnesses outside the main package or no completed path)"
		return st
	}
	ov, err := writeNativeOverlay(o, prog)
	if err != nil {
		st.Note = "overlay: " + err.Error()
		st.Disagree = -1
		return st
	}
	dir := filepath.Join(o.outDir, "native")
	bin := filepath.Join(dir, fmt.Sprintf("replay-%s.test", o.prop))
	t0 := time.Now()
	cmd := exec.Command("go", "test", "-c", "-tags", "verif", "-overlay", ov, "-vet=off", "-o", bin, ".")
	cmd.Dir = o.repo
	cmd.Env = append(os.Environ(), "GOFLAGS=-mod=mod", "GOPROXY=off", "GOSUMDB=off", "GOTOOLCHAIN=local")
	if out, err := cmd.CombinedOutput(); err != nil {
		st.Note = "go test -c failed: " + truncate(string(out), 400)
		st.Disagree = -1
		return st
	}
	defer os.Remove(bin)
	st.BuildS = time.Since(t0).Seconds()
	sdir := filepath.Join(o.outDir, o.prop, "samples")
	os.RemoveAll(sdir)
	os.MkdirAll(sdir, 0o755)
	var mu sync.Mutex
	var wg sync.WaitGroup
	sem := make(chan struct{}, 16)
	for i, f := range all {
		i, f := i, f
		wg.Add(1)
		sem <- struct{}{}
		go func() {
			defer func() { <-sem; wg.Done() }()
			file := filepath.Join(sdir, fmt.Sprintf("%s-%d.json", strings.TrimPrefix(f.Harness, "verifHarness_"), i))
			b, _ := json.Marshal(f)
			os.WriteFile(file, b, 0o644)
			c := exec.Command(bin, "-test.run", "^TestVerifReplay$", "-test.timeout", "60s", "-test.v")
			c.Dir = o.repo
			c.Env = append(os.Environ(), "VERIF_REPLAY="+file, "VERIF_HARNESS="+f.Harness, fmt.Sprintf("VERIF_TIER=%d", tier))
			out, _ := c.CombinedOutput()
			s := string(out)
			mu.Lock()
			defer mu.Unlock()
			switch {
			case strings.Contains(s, "VERIF-ENGINE-ONLY"):
				st.EngineOnly++
				os.Remove(file)
			case strings.Contains(s, "VERIF-ASSUMPTION-FAILED"):
				st.AssumeFail++
				if len(st.Examples) < 8 {
					st.Examples = append(st.Examples, f.Harness+": assumption failed natively on an engine-completed path: "+file)
				}
			case strings.Contains(s, "--- PASS") || strings.Contains(s, "\nPASS"):
				st.Passed++
				os.Remove(file)
			default:
				st.Disagree++
				if len(st.Examples) < 8 {
					st.Examples = append(st.Examples, f.Harness+": "+firstLine(s, "VERIF-")+" "+firstLine(s, "panic")+" file="+file)
				}
			}
		}()
	}
	wg.Wait()
	return st
}
