package main

// Symbolic interpreter for go/ssa: frames, run loop, instruction semantics.

import (
	"fmt"
	"os"
	"go/constant"
	"go/token"
	"go/types"
	"sync"

	"golang.org/x/tools/go/ssa"
)

// ---------- per-function register numbering (shared, read-mostly) ----------

type fnInfo struct {
	idx map[ssa.Value]int
	n   int
}

var fnInfoCache sync.Map // *ssa.Function -> *fnInfo

func getFnInfo(fn *ssa.Function) *fnInfo {
	if v, ok := fnInfoCache.Load(fn); ok {
		return v.(*fnInfo)
	}
	fi := &fnInfo{idx: map[ssa.Value]int{}}
	for _, p := range fn.Params {
		fi.idx[p] = fi.n
		fi.n++
	}
	for _, p := range fn.FreeVars {
		fi.idx[p] = fi.n
		fi.n++
	}
	for _, b := range fn.Blocks {
		for _, ins := range b.Instrs {
			if v, ok := ins.(ssa.Value); ok {
				fi.idx[v] = fi.n
				fi.n++
			}
		}
	}
	act, _ := fnInfoCache.LoadOrStore(fn, fi)
	return act.(*fnInfo)
}

type deferRec struct {
	fn   Value // *Closure or *Native
	args []Value
	site ssa.Instruction
}

type Frame struct {
	fn          *ssa.Function
	info        *fnInfo
	block, prev *ssa.BasicBlock
	pc          int
	regs        []Value
	defers      []deferRec
	caller      *Frame
	callInstr   ssa.Instruction      // the call instruction in the caller (nil for thread entry)
	onReturn    func(res Value) bool // optional continuation; returns true if it handled control
	isDeferCall bool
	unwinding   bool
	depth       int
}

type PanicVal struct {
	v       Value  // the Go panic value (Iface)
	runtime bool   // run-time error
	msg     string // description
	site    string // innermost function at the time of the panic
	stack   []string
}

type ThreadStatus int

const (
	Runnable ThreadStatus = iota
	Blocked
	Done
)

type Thread struct {
	id        int
	top       *Frame
	status    ThreadStatus
	cond      func() bool // for retry-style blocking; nil when blocked on channel queues
	blockDesc string
	panicking *PanicVal
	name      string
	atVisible bool // stopped just before a visible operation
	panicOnResume string
	steps     int
}

var callTrace = os.Getenv("SYMGO_CALLTRACE") != ""

// control signals (Go panics used for non-local exits inside the engine)
type unwindSignal struct{}
type pathEnd struct {
	reason string
	detail string
}

type Interp struct {
	w       *Worker
	st      *Store
	prog    *Program
	globals map[*ssa.Global]*Cell
	consts  map[*ssa.Const]Value
	cellSeq int

	threads []*Thread
	cur     *Thread
	now     int64 // virtual clock, ns
	timers  []*Timer

	// path state
	pc        []*Term
	prefix    []Decision
	path      []Decision
	decIdx    int
	vars      []*Term
	varCount  map[string]int
	concrete  map[string]uint64 // concrete replay values (nil in symbolic mode)
	steps     int
	maxSteps  int
	delays    int
	harness   *Harness
	allocLim  int64 // -1 = none
	events    []string
	crcMemo   map[string]*Term
	crcLog    []crcRec
	notes     []string
	failures  []*Failure
	reached   bool
	loopCount map[*ssa.BasicBlock]int
	fnCover   map[*ssa.Function]int
	trace     bool
	userState map[string]Value
	threadSeq int
	deadlockV bool
	schedOn   bool

	dynOv       map[*ssa.Function]Value
	delayBound  int
	maxTicks    int
	czCap       int
	mapPerm     int
	maxLoop     int
	tier        int
	deadlockOK  bool
	hangIsViolation bool
	failClass   string
	confirmModel map[string]uint64
	models      []*cachedModel
	timerByCell map[*Cell]*Timer
	crcPoly     map[*Cell]uint32
}

func (in *Interp) fail(reason, detail string) {
	if reason == "unsupported" && in.cur != nil && in.cur.top != nil {
		detail += " [at"
		n := 0
		for f := in.cur.top; f != nil && n < 6; f = f.caller {
			detail += " " + f.fn.String() + " <-"
			n++
		}
		detail += "]"
	}
	panic(pathEnd{reason, detail})
}

// ---------- operand access ----------

func (in *Interp) get(fr *Frame, v ssa.Value) Value {
	switch x := v.(type) {
	case *ssa.Const:
		return in.constVal(x)
	case *ssa.Function:
		return &Closure{fn: x}
	case *ssa.Global:
		return Pointer{c: in.globalCell(x)}
	case *ssa.Builtin:
		return &Native{name: "builtin:" + x.Name()}
	}
	i, ok := fr.info.idx[v]
	if !ok {
		panic(fmt.Sprintf("get: no register for %s (%T) in %s", v.Name(), v, fr.fn))
	}
	return fr.regs[i]
}

func (in *Interp) set(fr *Frame, v ssa.Value, x Value) {
	fr.regs[fr.info.idx[v]] = x
}

func (in *Interp) constVal(c *ssa.Const) Value {
	if v, ok := in.consts[c]; ok {
		return v
	}
	v := in.constConv(c)
	in.consts[c] = v
	return v
}

func (in *Interp) constConv(c *ssa.Const) Value {
	if c.Value == nil {
		return in.zero(c.Type())
	}
	t := c.Type().Underlying()
	if b, ok := t.(*types.Basic); ok {
		switch {
		case b.Info()&types.IsBoolean != 0:
			return in.st.Bool(constant.BoolVal(c.Value))
		case b.Info()&types.IsInteger != 0:
			w, signed := in.intWidth(b)
			if signed {
				return in.st.Const(w, uint64(c.Int64()))
			}
			return in.st.Const(w, c.Uint64())
		case b.Info()&types.IsFloat != 0:
			return Float{c.Float64()}
		case b.Info()&types.IsString != 0:
			return constant.StringVal(c.Value)
		case b.Info()&types.IsComplex != 0:
			return Float{0}
		}
	}
	if _, ok := t.(*types.Interface); ok {
		return Iface{}
	}
	panic(fmt.Sprintf("constConv: %v : %v", c, c.Type()))
}

func (in *Interp) globalCell(g *ssa.Global) *Cell {
	if c, ok := in.globals[g]; ok {
		return c
	}
	et := g.Type().(*types.Pointer).Elem()
	c := in.newCell(in.zero(et), g.String())
	in.globals[g] = c
	in.initForeignGlobal(g, c, et)
	return c
}

// ---------- frames ----------

func (in *Interp) pushFrame(th *Thread, fn *ssa.Function, args []Value, env []Value, callInstr ssa.Instruction) *Frame {
	info := getFnInfo(fn)
	fr := &Frame{fn: fn, info: info, regs: make([]Value, info.n), caller: th.top, callInstr: callInstr}
	if th.top != nil {
		fr.depth = th.top.depth + 1
	}
	if fr.depth > in.prog.maxDepth {
		in.unwindFail(th, "recursion depth exceeded in "+fn.String())
	}
	if len(args) != len(fn.Params) {
		panic(fmt.Sprintf("pushFrame %s: %d args for %d params", fn, len(args), len(fn.Params)))
	}
	copy(fr.regs, args)
	copy(fr.regs[len(fn.Params):], env)
	fr.block = fn.Blocks[0]
	th.top = fr
	in.fnCover[fn]++
	if callTrace && fn.Pkg != nil && in.prog.isTarget(fn.Pkg) && in.concrete != nil {
		as := ""
		for i, a := range args {
			if i > 3 {
				break
			}
			as += " " + showVal(a, 3)
		}
		if len(as) > 160 {
			as = as[:160]
		}
		fmt.Printf("  [t%d] %s%s\n", th.id, fn.String(), as)
	}
	return fr
}

// unwindFail reports a bound exhaustion (recursion / loop / steps).
func (in *Interp) unwindFail(th *Thread, what string) {
	if in.hangIsViolation {
		site := ""
		if th != nil && th.top != nil {
			site = in.siteOf(th.top)
		}
		if !in.inPrefix() || in.concrete != nil {
			in.recordFailure(th, &Failure{Kind: "hang", Label: "nontermination", Site: site, Detail: what}, nil)
		}
		in.fail("hang", what)
	}
	in.fail("unwind", what)
}

// ---------- run loop ----------

type stopReason int

const (
	stopVisible stopReason = iota // at a visible operation boundary
	stopBlocked
	stopDone
	stopPanic
)

// runSlice runs th until it blocks, finishes, or is about to execute a visible operation
// (when first is true, the pending visible operation is executed first).
func (in *Interp) runSlice(th *Thread, first bool) (r stopReason) {
	defer func() {
		if e := recover(); e != nil {
			if _, ok := e.(unwindSignal); ok {
				r = stopPanic
				return
			}
			panic(e)
		}
	}()
	for {
		fr := th.top
		if fr == nil {
			th.status = Done
			return stopDone
		}
		if th.status == Blocked {
			return stopBlocked
		}
		ins := fr.block.Instrs[fr.pc]
		if in.schedOn && !first && in.isVisible(fr, ins) {
			th.atVisible = true
			return stopVisible
		}
		first = false
		in.steps++
		if in.steps > in.maxSteps {
			in.unwindFail(th, fmt.Sprintf("step budget %d exceeded in %s", in.maxSteps, fr.fn))
		}
		if in.trace {
			fmt.Printf("  [t%d] %s: %s\n", th.id, fr.fn.Name(), insStr(ins))
		}
		in.exec(th, fr, ins)
	}
}

func insStr(ins ssa.Instruction) string {
	if v, ok := ins.(ssa.Value); ok {
		return v.Name() + " = " + ins.String()
	}
	return ins.String()
}

// runThread runs th up to its next scheduling point, handling panics.
func (in *Interp) runThread(th *Thread) stopReason {
	first := true
	for {
		r := in.runSlice(th, first)
		if r == stopPanic {
			in.continueUnwind(th, true)
			first = true // unwinding does not count as a visible boundary
			if th.top == nil {
				th.status = Done
				return stopDone
			}
			continue
		}
		return r
	}
}

// panicRT raises a Go run-time panic in th.
func (in *Interp) panicRT(th *Thread, msg string) {
	in.raise(th, &PanicVal{runtime: true, msg: msg, v: in.runtimeErrorValue(msg)})
}

func (in *Interp) raise(th *Thread, p *PanicVal) {
	if th.top != nil {
		p.site = in.siteOf(th.top)
		for f := th.top; f != nil && len(p.stack) < 12; f = f.caller {
			p.stack = append(p.stack, f.fn.String())
		}
	}
	th.panicking = p
	panic(unwindSignal{})
}

// siteOf returns the innermost non-harness function of the package under test on the stack.
func (in *Interp) siteOf(fr *Frame) string {
	for f := fr; f != nil; f = f.caller {
		if f.fn.Pkg != nil && in.prog.isTarget(f.fn.Pkg) && !isHarnessFn(f.fn) {
			return f.fn.String()
		}
		if f.fn.Pkg == nil && f.fn.Parent() != nil {
			p := f.fn
			for p.Parent() != nil {
				p = p.Parent()
			}
			if p.Pkg != nil && in.prog.isTarget(p.Pkg) && !isHarnessFn(p) {
				return f.fn.String()
			}
		}
	}
	return fr.fn.String()
}

// continueUnwind proceeds with panic unwinding (or post-recovery resumption) at th.top.
// fresh is true when called right after a panic was raised.
func (in *Interp) continueUnwind(th *Thread, fresh bool) {
	fr := th.top
	if fr == nil {
		return
	}
	if fresh {
		fr.unwinding = true
	}
	for {
		if len(fr.defers) > 0 {
			d := fr.defers[len(fr.defers)-1]
			fr.defers = fr.defers[:len(fr.defers)-1]
			in.invokeDeferred(th, fr, d)
			return
		}
		if th.panicking == nil {
			// recovered: resume in the Recover block or return zero values
			fr.unwinding = false
			if fr.fn.Recover != nil {
				fr.prev = nil
				fr.block = fr.fn.Recover
				fr.pc = 0
				return
			}
			var res Value
			rs := fr.fn.Signature.Results()
			switch rs.Len() {
			case 0:
			case 1:
				res = in.zero(rs.At(0).Type())
			default:
				res = in.zero(rs)
			}
			in.doReturn(th, fr, res)
			return
		}
		// still panicking: pop this frame
		th.top = fr.caller
		fr = th.top
		if fr == nil {
			// panic escaped the thread's entry function
			in.threadCrashed(th)
			return
		}
		fr.unwinding = true
	}
}

func (in *Interp) invokeDeferred(th *Thread, parent *Frame, d deferRec) {
	switch f := d.fn.(type) {
	case *Closure:
		if f == nil {
			in.panicRT(th, "invalid memory address or nil pointer dereference (nil deferred func)")
		}
		in.invokeFn(th, parent, f.fn, d.args, f.env, nil, true)
	case *Native:
		// natives used in defers (e.g. builtin close, bound sync methods) run to completion
		in.callNative(th, parent, f, d.args, nil, true)
		// stay in the loop: caller re-enters continue logic
		if parent.unwinding {
			in.continueUnwind(th, false)
		}
	default:
		panic(fmt.Sprintf("invokeDeferred: %T", d.fn))
	}
}

// doReturn pops fr and delivers res.
func (in *Interp) doReturn(th *Thread, fr *Frame, res Value) {
	th.top = fr.caller
	if fr.onReturn != nil {
		if fr.onReturn(res) {
			return
		}
	}
	caller := fr.caller
	if fr.isDeferCall {
		if caller != nil && caller.unwinding {
			in.continueUnwind(th, false)
		}
		// normal RunDefers: caller re-executes its RunDefers instruction
		return
	}
	if caller == nil {
		th.status = Done
		return
	}
	if fr.callInstr != nil {
		if v, ok := fr.callInstr.(ssa.Value); ok {
			in.set(caller, v, res)
		}
		caller.pc++
	}
}

// ---------- instruction execution ----------

func (in *Interp) exec(th *Thread, fr *Frame, ins ssa.Instruction) {
	switch x := ins.(type) {
	case *ssa.DebugRef:
		fr.pc++
	case *ssa.Alloc:
		et := x.Type().(*types.Pointer).Elem()
		c := in.newCell(in.zero(et), x.Comment)
		in.set(fr, x, Pointer{c: c})
		fr.pc++
	case *ssa.UnOp:
		in.execUnOp(th, fr, x)
	case *ssa.BinOp:
		a, b := in.get(fr, x.X), in.get(fr, x.Y)
		in.set(fr, x, in.binop(th, x.Op, x.X.Type(), x.Y.Type(), a, b))
		fr.pc++
	case *ssa.Store:
		p := in.get(fr, x.Addr).(Pointer)
		in.store(th, p, in.get(fr, x.Val))
		fr.pc++
	case *ssa.FieldAddr:
		p := in.get(fr, x.X).(Pointer)
		if p.c == nil {
			in.panicRT(th, "invalid memory address or nil pointer dereference")
		}
		in.set(fr, x, p.sub(x.Field))
		fr.pc++
	case *ssa.Field:
		a := in.get(fr, x.X).(*Agg)
		in.set(fr, x, copyVal(a.v[x.Field]))
		fr.pc++
	case *ssa.IndexAddr:
		in.execIndexAddr(th, fr, x)
	case *ssa.Index:
		in.execIndex(th, fr, x)
	case *ssa.Phi:
		// evaluate all phis of the block simultaneously
		pi := -1
		for i, p := range fr.block.Preds {
			if p == fr.prev {
				pi = i
				break
			}
		}
		if pi < 0 {
			panic("phi: predecessor not found in " + fr.fn.String())
		}
		n := 0
		for _, i2 := range fr.block.Instrs {
			if _, ok := i2.(*ssa.Phi); !ok {
				break
			}
			n++
		}
		vals := make([]Value, n)
		for i := 0; i < n; i++ {
			vals[i] = in.get(fr, fr.block.Instrs[i].(*ssa.Phi).Edges[pi])
		}
		for i := 0; i < n; i++ {
			in.set(fr, fr.block.Instrs[i].(*ssa.Phi), vals[i])
		}
		fr.pc = n
	case *ssa.Jump:
		in.jump(th, fr, fr.block.Succs[0])
	case *ssa.If:
		c := in.get(fr, x.Cond).(*Term)
		var taken bool
		if c.IsConst() {
			taken = c.k != 0
		} else {
			taken = in.branch(th, c, "if")
		}
		if taken {
			in.jump(th, fr, fr.block.Succs[0])
		} else {
			in.jump(th, fr, fr.block.Succs[1])
		}
	case *ssa.Return:
		var res Value
		switch len(x.Results) {
		case 0:
		case 1:
			res = in.get(fr, x.Results[0])
		default:
			t := make(Tuple, len(x.Results))
			for i, r := range x.Results {
				t[i] = in.get(fr, r)
			}
			res = t
		}
		in.doReturn(th, fr, res)
	case *ssa.Call:
		in.execCall(th, fr, x, &x.Call)
	case *ssa.Defer:
		fn, args := in.prepareCall(th, fr, &x.Call)
		fr.defers = append(fr.defers, deferRec{fn: fn, args: args, site: x})
		fr.pc++
	case *ssa.Go:
		fn, args := in.prepareCall(th, fr, &x.Call)
		in.spawn(th, fn, args, x)
		fr.pc++
	case *ssa.RunDefers:
		if len(fr.defers) == 0 {
			fr.pc++
			return
		}
		d := fr.defers[len(fr.defers)-1]
		fr.defers = fr.defers[:len(fr.defers)-1]
		in.invokeDeferred(th, fr, d)
	case *ssa.Panic:
		v := in.get(fr, x.X)
		pv := &PanicVal{v: v, msg: in.panicMsg(v)}
		in.raise(th, pv)
	case *ssa.Extract:
		t := in.get(fr, x.Tuple).(Tuple)
		in.set(fr, x, t[x.Index])
		fr.pc++
	case *ssa.MakeInterface:
		v := in.get(fr, x.X)
		in.set(fr, x, Iface{t: x.X.Type(), v: copyVal(v)})
		fr.pc++
	case *ssa.ChangeInterface:
		in.set(fr, x, in.get(fr, x.X))
		fr.pc++
	case *ssa.ChangeType:
		in.set(fr, x, in.get(fr, x.X))
		fr.pc++
	case *ssa.Convert:
		in.set(fr, x, in.convert(th, x.X.Type(), x.Type(), in.get(fr, x.X)))
		fr.pc++
	case *ssa.MultiConvert:
		in.set(fr, x, in.convert(th, x.X.Type(), x.Type(), in.get(fr, x.X)))
		fr.pc++
	case *ssa.TypeAssert:
		in.execTypeAssert(th, fr, x)
	case *ssa.MakeClosure:
		env := make([]Value, len(x.Bindings))
		for i, b := range x.Bindings {
			env[i] = in.get(fr, b)
		}
		in.set(fr, x, &Closure{fn: x.Fn.(*ssa.Function), env: env})
		fr.pc++
	case *ssa.MakeSlice:
		in.execMakeSlice(th, fr, x)
	case *ssa.MakeMap:
		if x.Reserve != nil {
			r := in.get(fr, x.Reserve).(*Term)
			in.noteAlloc(th, fr, in.toI64(r, x.Reserve.Type()), "makemap", false)
		}
		in.set(fr, x, in.newMap())
		fr.pc++
	case *ssa.MakeChan:
		n := in.concInt(th, in.get(fr, x.Size).(*Term), x.Size.Type(), "makechan")
		if n < 0 {
			in.panicRT(th, "makechan: size out of range")
		}
		in.set(fr, x, in.newChan(int(n)))
		fr.pc++
	case *ssa.Slice:
		in.execSlice(th, fr, x)
	case *ssa.Lookup:
		in.execLookup(th, fr, x)
	case *ssa.MapUpdate:
		m := in.get(fr, x.Map).(*Map)
		kt := x.Map.Type().Underlying().(*types.Map).Key()
		in.mapSet(th, m, kt, in.get(fr, x.Key), in.get(fr, x.Value))
		fr.pc++
	case *ssa.Range:
		in.execRange(th, fr, x)
	case *ssa.Next:
		in.execNext(th, fr, x)
	case *ssa.Send:
		in.execSend(th, fr, x)
	case *ssa.Select:
		in.execSelect(th, fr, x)
	case *ssa.SliceToArrayPointer:
		s := in.get(fr, x.X).(Slice)
		n := int(x.Type().(*types.Pointer).Elem().Underlying().(*types.Array).Len())
		if s.len < n {
			in.panicRT(th, "cannot convert slice to array pointer: length mismatch")
		}
		if s.arr == nil {
			in.set(fr, x, Pointer{})
		} else {
			// only supported when the slice covers the array exactly from its start
			if s.off != 0 || len(s.arr.v.(*Agg).v) != n {
				in.fail("unsupported", "SliceToArrayPointer with offset")
			}
			in.set(fr, x, Pointer{c: s.arr})
		}
		fr.pc++
	default:
		in.fail("unsupported", fmt.Sprintf("instruction %T in %s", ins, fr.fn))
	}
}

func (in *Interp) jump(th *Thread, fr *Frame, to *ssa.BasicBlock) {
	// loop bound: count back-edges per (frame-independent) block on this path
	if to.Index <= fr.block.Index {
		in.loopCount[to]++
		if in.loopCount[to] > in.maxLoop {
			in.unwindFail(th, fmt.Sprintf("loop bound %d exceeded at %s block %d", in.maxLoop, fr.fn, to.Index))
		}
	}
	fr.prev = fr.block
	fr.block = to
	fr.pc = 0
}

func (in *Interp) execUnOp(th *Thread, fr *Frame, x *ssa.UnOp) {
	v := in.get(fr, x.X)
	switch x.Op {
	case token.MUL:
		in.set(fr, x, in.load(th, v.(Pointer)))
	case token.SUB:
		switch a := v.(type) {
		case *Term:
			in.set(fr, x, in.st.Un(OpNeg, a))
		case Float:
			in.set(fr, x, Float{-a.f})
		}
	case token.NOT:
		in.set(fr, x, in.st.Not(v.(*Term)))
	case token.XOR:
		in.set(fr, x, in.st.Un(OpBNot, v.(*Term)))
	case token.ARROW:
		in.execRecv(th, fr, x, v.(*Chan))
		return
	default:
		in.fail("unsupported", "unop "+x.Op.String())
	}
	fr.pc++
}

// toI64 converts an integer term of static type t to a 64-bit term (sign- or zero-extended).
func (in *Interp) toI64(v *Term, t types.Type) *Term {
	if v.w == 64 {
		return v
	}
	if isSigned(t) {
		return in.st.SExt(v, 64)
	}
	return in.st.ZExt(v, 64)
}

// concInt returns a concrete int64 for v, forking over feasible values if symbolic.
func (in *Interp) concInt(th *Thread, v *Term, t types.Type, why string) int64 {
	v64 := in.toI64(v, t)
	if v64.IsConst() {
		return v64.S()
	}
	return int64(in.concretize(th, v64, why))
}

// checkIndex checks 0 <= idx < n (idx is 64-bit), raising an index panic on the failing side.
func (in *Interp) checkIndex(th *Thread, idx *Term, n int, what string) {
	ok := in.st.Cmp(OpUlt, idx, in.st.Const(64, uint64(n)))
	if ok.IsConst() {
		if ok.k == 0 {
			in.panicRT(th, fmt.Sprintf("index out of range [%d] with length %d", idx.S(), n))
		}
		return
	}
	if !in.branch(th, ok, what) {
		in.panicRT(th, fmt.Sprintf("index out of range [symbolic] with length %d", n))
	}
}

func (in *Interp) execIndexAddr(th *Thread, fr *Frame, x *ssa.IndexAddr) {
	base := in.get(fr, x.X)
	idx := in.toI64(in.get(fr, x.Index).(*Term), x.Index.Type())
	switch b := base.(type) {
	case Slice:
		in.checkIndex(th, idx, b.len, "index")
		i := int(in.concInt(th, idx, types.Typ[types.Int64], "index"))
		in.set(fr, x, Pointer{c: b.arr, path: []int{b.off + i}})
	case Pointer: // *array
		if b.c == nil {
			in.panicRT(th, "invalid memory address or nil pointer dereference")
		}
		n := int(x.X.Type().Underlying().(*types.Pointer).Elem().Underlying().(*types.Array).Len())
		in.checkIndex(th, idx, n, "index")
		i := int(in.concInt(th, idx, types.Typ[types.Int64], "index"))
		in.set(fr, x, b.sub(i))
	default:
		panic(fmt.Sprintf("IndexAddr on %T", base))
	}
	fr.pc++
}

func (in *Interp) execIndex(th *Thread, fr *Frame, x *ssa.Index) {
	base := in.get(fr, x.X)
	idx := in.toI64(in.get(fr, x.Index).(*Term), x.Index.Type())
	switch b := base.(type) {
	case *Agg:
		in.checkIndex(th, idx, len(b.v), "index")
		i := int(in.concInt(th, idx, types.Typ[types.Int64], "index"))
		in.set(fr, x, copyVal(b.v[i]))
	case string, *SymStr, *LazyStr:
		bs := in.strBytes(b)
		in.checkIndex(th, idx, len(bs), "index")
		i := int(in.concInt(th, idx, types.Typ[types.Int64], "index"))
		in.set(fr, x, bs[i])
	default:
		panic(fmt.Sprintf("Index on %T", base))
	}
	fr.pc++
}

func (in *Interp) execTypeAssert(th *Thread, fr *Frame, x *ssa.TypeAssert) {
	v := in.get(fr, x.X).(Iface)
	ok := false
	var res Value
	if v.t != nil {
		if it, isI := x.AssertedType.Underlying().(*types.Interface); isI {
			if in.implements(v.t, it) {
				ok = true
				res = v
			}
		} else if types.Identical(v.t, x.AssertedType) {
			ok = true
			res = copyVal(v.v)
		}
	}
	if x.CommaOk {
		if !ok {
			res = in.zero(x.AssertedType)
		}
		in.set(fr, x, Tuple{res, in.st.Bool(ok)})
	} else {
		if !ok {
			desc := "nil"
			if v.t != nil {
				desc = v.t.String()
			}
			in.panicRT(th, fmt.Sprintf("interface conversion: interface is %s, not %s", desc, x.AssertedType))
		}
		in.set(fr, x, res)
	}
	fr.pc++
}

func (in *Interp) implements(t types.Type, it *types.Interface) bool {
	return in.prog.implements(t, it)
}

// noteAlloc applies the harness's allocation-proportion policy to an element count n (64-bit).
func (in *Interp) noteAlloc(th *Thread, fr *Frame, n *Term, what string, negPanics bool) {
	if in.allocLim < 0 {
		return
	}
	if n.IsConst() {
		// concrete replay: the recorded count must exceed the limit again
		if in.concrete != nil && n.S() > in.allocLim {
			in.recordFailure(th, &Failure{Kind: "alloc", Label: "alloc-out-of-proportion", Site: in.siteOf(fr),
				Detail: fmt.Sprintf("%s of %d elements, limit %d", what, n.S(), in.allocLim)}, nil)
			in.fail("fail-stop", "alloc")
		}
		return
	}
	lim := in.st.Const(64, uint64(in.allocLim))
	tooBig := in.st.Cmp(OpSlt, lim, n)
	if tooBig.IsConst() {
		if tooBig.k == 0 {
			return
		}
	}
	site := in.siteOf(fr)
	if in.queryFeasible(th, tooBig) {
		in.recordFailure(th, &Failure{Kind: "alloc", Label: "alloc-out-of-proportion", Site: site,
			Detail: fmt.Sprintf("%s element count can exceed %d (input-controlled)", what, in.allocLim)}, tooBig)
		in.fail("fail-stop", "alloc")
	}
}

func (in *Interp) execMakeSlice(th *Thread, fr *Frame, x *ssa.MakeSlice) {
	ln := in.toI64(in.get(fr, x.Len).(*Term), x.Len.Type())
	cp := in.toI64(in.get(fr, x.Cap).(*Term), x.Cap.Type())
	// negative or cap<len panics
	bad := in.st.Or(in.st.Cmp(OpSlt, ln, in.st.Const(64, 0)), in.st.Cmp(OpSlt, cp, ln))
	if bad.IsConst() {
		if bad.k != 0 {
			in.panicRT(th, "makeslice: len out of range")
		}
	} else if in.branch(th, bad, "makeslice") {
		in.panicRT(th, "makeslice: len out of range")
	}
	in.noteAlloc(th, fr, cp, "makeslice", true)
	l := int(in.concInt(th, ln, types.Typ[types.Int64], "makeslice-len"))
	c := int(in.concInt(th, cp, types.Typ[types.Int64], "makeslice-cap"))
	if c > in.prog.maxAlloc {
		in.fail("unwind", fmt.Sprintf("makeslice of %d elements exceeds engine bound %d in %s", c, in.prog.maxAlloc, fr.fn))
	}
	et := x.Type().Underlying().(*types.Slice).Elem()
	in.set(fr, x, in.makeSlice(et, l, c))
	fr.pc++
}

func (in *Interp) makeSlice(et types.Type, l, c int) Slice {
	a := &Agg{v: make([]Value, c)}
	if c > 0 {
		z := in.zero(et)
		if _, isAgg := z.(*Agg); isAgg {
			a.v[0] = z
			for i := 1; i < c; i++ {
				a.v[i] = in.zero(et)
			}
		} else {
			for i := range a.v {
				a.v[i] = z
			}
		}
	}
	return Slice{arr: in.newCell(a, "slice"), off: 0, len: l, cap: c}
}

func (in *Interp) execSlice(th *Thread, fr *Frame, x *ssa.Slice) {
	base := in.get(fr, x.X)
	var length, capacity int
	switch b := base.(type) {
	case Slice:
		length, capacity = b.len, b.cap
	case string, *SymStr, *LazyStr:
		length = in.strLen(b)
		capacity = length
	case Pointer:
		if b.c == nil {
			in.panicRT(th, "invalid memory address or nil pointer dereference")
		}
		length = int(x.X.Type().Underlying().(*types.Pointer).Elem().Underlying().(*types.Array).Len())
		capacity = length
	default:
		panic(fmt.Sprintf("Slice on %T", base))
	}
	lo := in.st.Const(64, 0)
	hi := in.st.Const(64, uint64(length))
	mx := in.st.Const(64, uint64(capacity))
	if x.Low != nil {
		lo = in.toI64(in.get(fr, x.Low).(*Term), x.Low.Type())
	}
	if x.High != nil {
		hi = in.toI64(in.get(fr, x.High).(*Term), x.High.Type())
	}
	if x.Max != nil {
		mx = in.toI64(in.get(fr, x.Max).(*Term), x.Max.Type())
	}
	// 0 <= lo <= hi <= max <= cap   (unsigned compares catch negatives)
	capT := in.st.Const(64, uint64(capacity))
	ok := in.st.And(in.st.Cmp(OpUle, lo, hi), in.st.And(in.st.Cmp(OpUle, hi, mx), in.st.Cmp(OpUle, mx, capT)))
	if ok.IsConst() {
		if ok.k == 0 {
			in.panicRT(th, fmt.Sprintf("slice bounds out of range [%d:%d] with capacity %d", lo.S(), hi.S(), capacity))
		}
	} else if !in.branch(th, ok, "slice-bounds") {
		in.panicRT(th, fmt.Sprintf("slice bounds out of range [symbolic] with capacity %d", capacity))
	}
	if lz, ok := base.(*LazyStr); ok {
		base = in.force(lz)
	}
	l := int(in.concInt(th, lo, types.Typ[types.Int64], "slice-lo"))
	h := int(in.concInt(th, hi, types.Typ[types.Int64], "slice-hi"))
	m := int(in.concInt(th, mx, types.Typ[types.Int64], "slice-max"))
	switch b := base.(type) {
	case Slice:
		if b.arr == nil {
			in.set(fr, x, Slice{})
		} else {
			in.set(fr, x, Slice{arr: b.arr, off: b.off + l, len: h - l, cap: m - l})
		}
	case string:
		in.set(fr, x, b[l:h])
	case *SymStr:
		in.set(fr, x, in.mkStr(b.b[l:h]))
	case Pointer:
		// slicing *array: need the array to be a whole cell or a sub-aggregate; wrap via a view cell
		if len(b.path) == 0 {
			in.set(fr, x, Slice{arr: b.c, off: l, len: h - l, cap: m - l})
		} else {
			// sub-aggregate arrays: share the Agg object through a new cell referencing it
			var v Value = b.c.v
			for _, i := range b.path {
				v = v.(*Agg).v[i]
			}
			view := in.newCell(v, "arrayview")
			in.set(fr, x, Slice{arr: view, off: l, len: h - l, cap: m - l})
		}
	}
	fr.pc++
}

func (in *Interp) execLookup(th *Thread, fr *Frame, x *ssa.Lookup) {
	base := in.get(fr, x.X)
	switch b := base.(type) {
	case *Map:
		mt := x.X.Type().Underlying().(*types.Map)
		i := in.mapFind(th, b, mt.Key(), in.get(fr, x.Index))
		var v Value
		if i >= 0 {
			v = copyVal(b.vals[i])
		} else {
			v = in.zero(mt.Elem())
		}
		if x.CommaOk {
			in.set(fr, x, Tuple{v, in.st.Bool(i >= 0)})
		} else {
			in.set(fr, x, v)
		}
	case string, *SymStr, *LazyStr:
		bs := in.strBytes(b)
		idx := in.toI64(in.get(fr, x.Index).(*Term), x.Index.Type())
		in.checkIndex(th, idx, len(bs), "index")
		i := int(in.concInt(th, idx, types.Typ[types.Int64], "index"))
		in.set(fr, x, bs[i])
	default:
		panic(fmt.Sprintf("Lookup on %T", base))
	}
	fr.pc++
}

type rangeIter struct {
	m    *Map
	idx  []int // snapshot of live indices (map order decision applied)
	pos  int
	str  []*Term
	isSt bool
}

func (in *Interp) execRange(th *Thread, fr *Frame, x *ssa.Range) {
	base := in.get(fr, x.X)
	it := &rangeIter{}
	switch b := base.(type) {
	case *Map:
		it.m = b
		if b != nil {
			for i := range b.keys {
				if b.live[i] {
					it.idx = append(it.idx, i)
				}
			}
			in.mapOrder(th, fr, it)
		}
	case string, *SymStr, *LazyStr:
		it.isSt = true
		it.str = in.strBytes(b)
	default:
		panic(fmt.Sprintf("Range on %T", base))
	}
	in.set(fr, x, it)
	fr.pc++
}

func (in *Interp) execNext(th *Thread, fr *Frame, x *ssa.Next) {
	it := in.get(fr, x.Iter).(*rangeIter)
	if it.isSt {
		if it.pos >= len(it.str) {
			in.set(fr, x, Tuple{in.st.ff, in.st.Const(64, 0), in.st.Const(32, 0)})
		} else {
			b := it.str[it.pos]
			if !b.IsConst() {
				// assume ASCII for symbolic bytes: fork on the high bit
				hi := in.st.Cmp(OpUlt, in.st.Const(8, 0x7f), b)
				if in.branch(th, hi, "utf8") {
					in.fail("unsupported", "range over string with symbolic non-ASCII byte")
				}
				in.set(fr, x, Tuple{in.st.tt, in.st.Const(64, uint64(it.pos)), in.st.ZExt(b, 32)})
				it.pos++
			} else if b.k < 0x80 {
				in.set(fr, x, Tuple{in.st.tt, in.st.Const(64, uint64(it.pos)), in.st.Const(32, b.k)})
				it.pos++
			} else {
				// decode concrete UTF-8
				bs := []byte{}
				for j := it.pos; j < len(it.str) && j < it.pos+4; j++ {
					if !it.str[j].IsConst() {
						break
					}
					bs = append(bs, byte(it.str[j].k))
				}
				r, size := decodeRune(bs)
				in.set(fr, x, Tuple{in.st.tt, in.st.Const(64, uint64(it.pos)), in.st.Const(32, uint64(r))})
				it.pos += size
			}
		}
		fr.pc++
		return
	}
	mt := x.Iter.(*ssa.Range).X.Type().Underlying().(*types.Map)
	for it.pos < len(it.idx) {
		i := it.idx[it.pos]
		it.pos++
		if it.m.live[i] {
			in.set(fr, x, Tuple{in.st.tt, copyVal(it.m.keys[i]), copyVal(it.m.vals[i])})
			fr.pc++
			return
		}
	}
	in.set(fr, x, Tuple{in.st.ff, in.zero(mt.Key()), in.zero(mt.Elem())})
	fr.pc++
}
