package main

// Calls, builtins, panics, foreign globals.

import (
	"fmt"
	"go/types"
	"strings"
	"unicode/utf8"

	"golang.org/x/tools/go/ssa"
)

// initWhitelist: packages (other than the ones under test) whose initialiser is executed
// because the code relies on state it sets up (context: the pre-closed done channel).
var initWhitelist = map[string]bool{"context": true}

type ctl int

const (
	ctlNext  ctl = iota // native completed; deliver result and advance
	ctlBlock            // native blocked the thread (retry later); do not advance
	ctlTaken            // native took over control flow (pushed a frame / set pc itself)
)

type nativeFn func(in *Interp, th *Thread, fr *Frame, args []Value, call ssa.Instruction) (Value, ctl)

func decodeRune(b []byte) (rune, int) {
	r, n := utf8.DecodeRune(b)
	if n == 0 {
		return utf8.RuneError, 1
	}
	return r, n
}

// prepareCall evaluates the callee and the arguments of a call.
func (in *Interp) prepareCall(th *Thread, fr *Frame, call *ssa.CallCommon) (Value, []Value) {
	if call.IsInvoke() {
		recv := in.get(fr, call.Value).(Iface)
		if recv.t == nil {
			in.panicRT(th, "invalid memory address or nil pointer dereference (method call on nil interface "+call.Method.Name()+")")
		}
		fn := in.prog.lookupMethod(recv.t, call.Method)
		if fn == nil {
			in.fail("unsupported", fmt.Sprintf("no method %s on %s", call.Method.Name(), recv.t))
		}
		args := make([]Value, 0, len(call.Args)+1)
		args = append(args, recv.v)
		for _, a := range call.Args {
			args = append(args, in.get(fr, a))
		}
		return &Closure{fn: fn}, args
	}
	fv := in.get(fr, call.Value)
	args := make([]Value, len(call.Args))
	for i, a := range call.Args {
		args[i] = in.get(fr, a)
	}
	return fv, args
}

func (in *Interp) execCall(th *Thread, fr *Frame, x *ssa.Call, call *ssa.CallCommon) {
	if b, ok := call.Value.(*ssa.Builtin); ok {
		args := make([]Value, len(call.Args))
		for i, a := range call.Args {
			args[i] = in.get(fr, a)
		}
		res := in.builtin(th, fr, b, call, args)
		in.set(fr, x, res)
		fr.pc++
		return
	}
	fv, args := in.prepareCall(th, fr, call)
	switch f := fv.(type) {
	case *Closure:
		if f == nil {
			in.panicRT(th, "invalid memory address or nil pointer dereference (call of nil func)")
		}
		in.invokeFn(th, fr, f.fn, args, f.env, x, false)
	case *Native:
		in.callNative(th, fr, f, args, x, false)
	default:
		panic(fmt.Sprintf("execCall: callee %T", fv))
	}
}

// invokeFn calls an SSA function (honouring overrides and intercepts).
func (in *Interp) invokeFn(th *Thread, caller *Frame, fn *ssa.Function, args, env []Value, callInstr ssa.Instruction, isDefer bool) {
	if ov, ok := in.dynOverride(fn); ok {
		switch o := ov.(type) {
		case *Closure:
			fn, env = o.fn, o.env
		case *Native:
			in.callNative(th, caller, o, args, callInstr, isDefer)
			return
		}
	} else if o2, ok := in.prog.overrides[fn]; ok {
		fn, env = o2, nil
	}
	if fn.Name() == "init" && fn.Pkg != nil && !in.prog.isTarget(fn.Pkg) && fn.Signature.Recv() == nil && fn.Parent() == nil && !initWhitelist[fn.Pkg.Pkg.Path()] {
		// initialisers of other packages are not run (their globals are modelled lazily)
		if callInstr != nil {
			caller.pc++
		}
		return
	}
	if nf, ok := in.prog.natives[fn]; ok {
		in.callNative(th, caller, nf, args, callInstr, isDefer)
		return
	}
	if len(fn.Blocks) == 0 {
		in.fail("unsupported", "external function without body: "+fn.String())
	}
	fr := in.pushFrame(th, fn, args, env, callInstr)
	fr.isDeferCall = isDefer
}

func (in *Interp) callNative(th *Thread, caller *Frame, nf *Native, args []Value, callInstr ssa.Instruction, isDefer bool) {
	if strings.HasPrefix(nf.name, "builtin:") {
		// builtin used as a value in defer/go (e.g. defer close(ch))
		name := strings.TrimPrefix(nf.name, "builtin:")
		in.builtinByName(th, caller, name, args)
		if callInstr != nil {
			caller.pc++
		}
		return
	}
	f := in.prog.nativeImpl[nf.name]
	if f == nil {
		in.fail("unsupported", "native without implementation: "+nf.name)
	}
	res, c := f(in, th, caller, args, callInstr)
	switch c {
	case ctlNext:
		if callInstr != nil {
			if v, ok := callInstr.(ssa.Value); ok {
				in.set(caller, v, res)
			}
			caller.pc++
		}
	case ctlBlock:
		if callInstr == nil || isDefer {
			in.fail("unsupported", "blocking native in deferred call: "+nf.name)
		}
	case ctlTaken:
	}
}

// ---------- builtins ----------

func (in *Interp) builtin(th *Thread, fr *Frame, b *ssa.Builtin, call *ssa.CallCommon, args []Value) Value {
	switch b.Name() {
	case "append":
		return in.doAppend(th, fr, call.Args[0].Type(), args[0].(Slice), args[1])
	case "copy":
		return in.doCopy(th, args[0].(Slice), args[1])
	case "len":
		return in.st.Const(64, uint64(in.lenOf(args[0])))
	case "cap":
		switch x := args[0].(type) {
		case Slice:
			return in.st.Const(64, uint64(x.cap))
		case *Chan:
			if x == nil {
				return in.st.Const(64, 0)
			}
			return in.st.Const(64, uint64(x.cap))
		}
		panic("cap")
	case "delete":
		m := args[0].(*Map)
		kt := call.Args[0].Type().Underlying().(*types.Map).Key()
		if m != nil {
			in.mapDelete(th, m, kt, args[1])
		}
		return nil
	case "close":
		in.closeChan(th, args[0].(*Chan))
		return nil
	case "recover":
		return in.doRecover(th, fr)
	case "print", "println":
		return nil
	case "min", "max":
		r := args[0].(*Term)
		t := call.Args[0].Type()
		for _, a := range args[1:] {
			y := a.(*Term)
			var lt *Term
			if isSigned(t) {
				lt = in.st.Cmp(OpSlt, y, r)
			} else {
				lt = in.st.Cmp(OpUlt, y, r)
			}
			if b.Name() == "max" {
				lt = in.st.Not(in.st.Or(lt, in.st.Eq(y, r)))
			}
			r = in.st.Ite(lt, y, r)
		}
		return r
	case "clear":
		switch x := args[0].(type) {
		case *Map:
			if x != nil {
				for i := range x.live {
					x.live[i] = false
				}
				x.n = 0
			}
		case Slice:
			if x.arr != nil {
				et := call.Args[0].Type().Underlying().(*types.Slice).Elem()
				a := x.arr.v.(*Agg)
				for i := 0; i < x.len; i++ {
					a.v[x.off+i] = in.zero(et)
				}
			}
		}
		return nil
	case "ssa:wrapnilchk":
		p := args[0].(Pointer)
		if p.c == nil {
			in.panicRT(th, "value method called using nil pointer")
		}
		return p
	}
	in.fail("unsupported", "builtin "+b.Name())
	return nil
}

func (in *Interp) builtinByName(th *Thread, fr *Frame, name string, args []Value) {
	switch name {
	case "close":
		in.closeChan(th, args[0].(*Chan))
	case "print", "println":
	case "recover":
		in.doRecover(th, fr)
	default:
		in.fail("unsupported", "builtin value "+name)
	}
}

func (in *Interp) lenOf(v Value) int {
	switch x := v.(type) {
	case Slice:
		return x.len
	case string:
		return len(x)
	case *SymStr:
		return len(x.b)
	case *LazyStr:
		return in.strLen(x)
	case *Map:
		if x == nil {
			return 0
		}
		return x.n
	case *Chan:
		if x == nil {
			return 0
		}
		return len(x.buf)
	case Pointer:
		if x.c != nil {
			var a Value = x.c.v
			for _, i := range x.path {
				a = a.(*Agg).v[i]
			}
			return len(a.(*Agg).v)
		}
	case *Agg:
		return len(x.v)
	}
	panic(fmt.Sprintf("len of %T", v))
}

func (in *Interp) sliceElems(s Slice) []Value {
	if s.arr == nil {
		return nil
	}
	return s.arr.v.(*Agg).v[s.off : s.off+s.len]
}

func (in *Interp) doAppend(th *Thread, fr *Frame, st types.Type, s Slice, more Value) Value {
	var add []Value
	switch m := more.(type) {
	case Slice:
		add = in.sliceElems(m)
	case string, *SymStr, *LazyStr:
		for _, b := range in.strBytes(m) {
			add = append(add, b)
		}
	default:
		panic(fmt.Sprintf("append: %T", more))
	}
	if len(add) == 0 {
		return s
	}
	need := s.len + len(add)
	if need <= s.cap && s.arr != nil {
		a := s.arr.v.(*Agg)
		for i, e := range add {
			a.v[s.off+s.len+i] = copyVal(e)
		}
		return Slice{arr: s.arr, off: s.off, len: need, cap: s.cap}
	}
	// grow (Go's amortised growth: double below 256, then 1.25x; exact class sizes are not modelled)
	nc := s.cap * 2
	if s.cap >= 256 {
		nc = s.cap + s.cap/4
	}
	if nc < need {
		nc = need
	}
	if nc > in.prog.maxAlloc {
		in.fail("unwind", fmt.Sprintf("append grows to %d elements, exceeds engine bound", nc))
	}
	et := st.Underlying().(*types.Slice).Elem()
	ns := in.makeSlice(et, need, nc)
	a := ns.arr.v.(*Agg)
	for i, e := range in.sliceElems(s) {
		a.v[i] = copyVal(e)
	}
	for i, e := range add {
		a.v[s.len+i] = copyVal(e)
	}
	return ns
}

func (in *Interp) doCopy(th *Thread, dst Slice, src Value) Value {
	var from []Value
	switch m := src.(type) {
	case Slice:
		from = in.sliceElems(m)
	case string, *SymStr, *LazyStr:
		for _, b := range in.strBytes(m) {
			from = append(from, b)
		}
	}
	n := len(from)
	if dst.len < n {
		n = dst.len
	}
	if n > 0 {
		// handle overlap: copy via temp
		tmp := make([]Value, n)
		for i := 0; i < n; i++ {
			tmp[i] = copyVal(from[i])
		}
		a := dst.arr.v.(*Agg)
		copy(a.v[dst.off:dst.off+n], tmp)
	}
	return in.st.Const(64, uint64(n))
}

func (in *Interp) doRecover(th *Thread, fr *Frame) Value {
	// valid only when called directly by a deferred function whose parent is unwinding
	if th.panicking != nil && fr.isDeferCall && fr.caller != nil && fr.caller.unwinding {
		p := th.panicking
		th.panicking = nil
		in.events = append(in.events, "recovered: "+p.msg)
		if pv, ok := p.v.(Iface); ok {
			return pv
		}
		return Iface{t: types.Typ[types.String], v: p.msg}
	}
	return Iface{}
}

func (in *Interp) runtimeErrorValue(msg string) Value {
	return in.prog.runtimeErrorIface(in, "runtime error: "+msg)
}

func (in *Interp) panicMsg(v Value) string {
	if i, ok := v.(Iface); ok {
		if i.t == nil {
			return "panic(nil)"
		}
		switch x := i.v.(type) {
		case string:
			return x
		case Pointer:
			// errors.errorString and similar: show first string field if any
			if x.c != nil {
				if a, ok := x.c.v.(*Agg); ok {
					for _, f := range a.v {
						if s, ok := f.(string); ok {
							return i.t.String() + ": " + s
						}
					}
				}
			}
		case *Term:
			if x.IsConst() {
				return fmt.Sprintf("%s(%d)", i.t, x.S())
			}
		}
		return "panic value of type " + i.t.String()
	}
	return "panic"
}

// threadCrashed: a panic left the entry function of a thread.
func (in *Interp) threadCrashed(th *Thread) {
	p := th.panicking
	th.status = Done
	f := &Failure{Kind: "panic", Label: "panic", Site: p.site, Detail: p.msg, Stack: p.stack}
	in.recordFailure(th, f, nil)
	in.fail("panic", p.msg)
}

// ---------- foreign globals ----------

// initForeignGlobal gives well-known globals of packages whose init is not run a usable value.
func (in *Interp) initForeignGlobal(g *ssa.Global, c *Cell, et types.Type) {
	if g.Pkg == nil || in.prog.isTarget(g.Pkg) {
		return
	}
	// error-typed sentinels: a distinct *errors.errorString per global
	if types.Identical(et, in.prog.errorType) {
		c.v = in.prog.newErrorString(in, g.Pkg.Pkg.Path()+"."+g.Name())
		return
	}
	full := g.Pkg.Pkg.Path() + "." + g.Name()
	switch full {
	case "hash/crc32.IEEETable":
		c.v = Pointer{c: in.crcTable(0xedb88320)}
	}
}
