package main

// One long-lived SMT solver process per worker; terms are sent once as define-fun (global
// declarations), the path condition is kept in sync with push/pop.

import (
	"bufio"
	"fmt"
	"io"
	"os/exec"
	"strconv"
	"strings"
	"time"
)

type SatResult int

const (
	Unsat SatResult = iota
	Sat
	Unknown
)

func (r SatResult) String() string { return [...]string{"unsat", "sat", "unknown"}[r] }

type Solver struct {
	name    string
	args    []string
	cmd     *exec.Cmd
	in      io.WriteCloser
	out     *bufio.Reader
	emitted []bool
	stack   []*Term // asserted PC terms, one push level each
	buf     strings.Builder
	timeout time.Duration

	// stats
	nQueries, nSat, nUnsat, nUnknown int
	wall                             time.Duration
	lastErr                          string
}

func solverArgs(name string) (string, []string) {
	switch name {
	case "z3-new":
		return "z3-new", []string{"-in"}
	case "z3":
		return "z3", []string{"-in"}
	case "cvc5":
		return "cvc5", []string{"--incremental", "--lang=smt2", "--produce-models"}
	}
	return name, []string{"-in"}
}

func NewSolver(name string, timeout time.Duration) (*Solver, error) {
	s := &Solver{name: name, timeout: timeout}
	if err := s.start(); err != nil {
		return nil, err
	}
	return s, nil
}

func (s *Solver) start() error {
	bin, args := solverArgs(s.name)
	s.cmd = exec.Command(bin, args...)
	in, err := s.cmd.StdinPipe()
	if err != nil {
		return err
	}
	out, err := s.cmd.StdoutPipe()
	if err != nil {
		return err
	}
	s.cmd.Stderr = nil
	if err := s.cmd.Start(); err != nil {
		return err
	}
	s.in = in
	s.out = bufio.NewReaderSize(out, 1<<16)
	s.emitted = s.emitted[:0]
	s.stack = s.stack[:0]
	ms := int(s.timeout / time.Millisecond)
	if s.name == "cvc5" {
		fmt.Fprintf(s.in, "(set-option :global-declarations true)\n(set-option :tlimit-per %d)\n(set-logic QF_BV)\n", ms)
	} else {
		fmt.Fprintf(s.in, "(set-option :global-declarations true)\n(set-option :timeout %d)\n", ms)
	}
	return nil
}

func (s *Solver) Close() {
	if s.cmd != nil {
		s.in.Close()
		s.cmd.Process.Kill()
		s.cmd.Wait()
		s.cmd = nil
	}
}

func (s *Solver) restart() {
	s.Close()
	if err := s.start(); err != nil {
		panic("solver restart: " + err.Error())
	}
}

// define makes sure t and its sub-terms are known to the solver.
func (s *Solver) define(t *Term) {
	if t == nil || t.op == OpConst {
		return
	}
	id := int(t.id)
	for len(s.emitted) <= id {
		s.emitted = append(s.emitted, false)
	}
	if s.emitted[id] {
		return
	}
	// iterative post-order to avoid deep recursion on long chains
	type fr struct {
		t *Term
		i int
	}
	st := []fr{{t, 0}}
	for len(st) > 0 {
		f := &st[len(st)-1]
		var ch *Term
		switch f.i {
		case 0:
			ch = f.t.a
		case 1:
			ch = f.t.b
		case 2:
			ch = f.t.c
		}
		if f.i < 3 {
			f.i++
			if ch != nil && ch.op != OpConst {
				cid := int(ch.id)
				for len(s.emitted) <= cid {
					s.emitted = append(s.emitted, false)
				}
				if !s.emitted[cid] {
					st = append(st, fr{ch, 0})
				}
			}
			continue
		}
		x := f.t
		st = st[:len(st)-1]
		xid := int(x.id)
		if s.emitted[xid] {
			continue
		}
		s.emitted[xid] = true
		if x.op == OpVar {
			fmt.Fprintf(&s.buf, "(declare-const %s %s)\n", x.ref(), sortStr(x.w))
		} else {
			fmt.Fprintf(&s.buf, "(define-fun %s () %s %s)\n", x.ref(), sortStr(x.w), x.body())
		}
	}
}

func (s *Solver) flush() {
	if s.buf.Len() > 0 {
		io.WriteString(s.in, s.buf.String())
		s.buf.Reset()
	}
}

func (s *Solver) readLine() (string, error) {
	line, err := s.out.ReadString('\n')
	return strings.TrimSpace(line), err
}

// syncPC makes the solver's assertion stack equal to pc.
func (s *Solver) syncPC(pc []*Term) {
	n := 0
	for n < len(s.stack) && n < len(pc) && s.stack[n] == pc[n] {
		n++
	}
	if d := len(s.stack) - n; d > 0 {
		fmt.Fprintf(&s.buf, "(pop %d)\n", d)
		s.stack = s.stack[:n]
	}
	for _, t := range pc[n:] {
		s.define(t)
		fmt.Fprintf(&s.buf, "(push 1)\n(assert %s)\n", t.ref())
		s.stack = append(s.stack, t)
	}
}

// Check decides satisfiability of pc ∧ extra. If wantModel, the values of vars are returned on sat.
func (s *Solver) Check(pc []*Term, extra *Term, vars []*Term) (SatResult, map[*Term]uint64) {
	t0 := time.Now()
	defer func() { s.wall += time.Since(t0) }()
	s.nQueries++
	s.syncPC(pc)
	if extra != nil {
		s.define(extra)
		fmt.Fprintf(&s.buf, "(push 1)\n(assert %s)\n", extra.ref())
	}
	for _, v := range vars {
		s.define(v)
	}
	s.buf.WriteString("(check-sat)\n")
	s.flush()
	res := Unknown
	line, err := s.readLine()
	if err != nil {
		s.lastErr = "solver died: " + err.Error()
		s.restart()
		s.nUnknown++
		return Unknown, nil
	}
	switch line {
	case "sat":
		res = Sat
	case "unsat":
		res = Unsat
	case "unknown", "timeout":
		res = Unknown
	default:
		// (error ...) or anything else: inconclusive; resynchronise by restarting
		s.lastErr = line
		s.restart()
		s.nUnknown++
		return Unknown, nil
	}
	var model map[*Term]uint64
	if res == Sat && len(vars) > 0 {
		model = map[*Term]uint64{}
		// ask in chunks to keep lines manageable
		for i := 0; i < len(vars); i += 64 {
			j := i + 64
			if j > len(vars) {
				j = len(vars)
			}
			s.buf.WriteString("(get-value (")
			for _, v := range vars[i:j] {
				s.buf.WriteString(v.ref())
				s.buf.WriteString(" ")
			}
			s.buf.WriteString("))\n")
			s.flush()
			txt, err := s.readSexp()
			if err != nil {
				s.lastErr = "get-value: " + err.Error()
				s.restart()
				s.nUnknown++
				return Unknown, nil
			}
			parseValues(txt, vars[i:j], model)
		}
	}
	if extra != nil {
		s.buf.WriteString("(pop 1)\n")
		s.flush()
	}
	switch res {
	case Sat:
		s.nSat++
	case Unsat:
		s.nUnsat++
	default:
		s.nUnknown++
	}
	return res, model
}

// readSexp reads one balanced s-expression from the solver.
func (s *Solver) readSexp() (string, error) {
	var sb strings.Builder
	depth := 0
	started := false
	for {
		line, err := s.out.ReadString('\n')
		if err != nil {
			return "", err
		}
		sb.WriteString(line)
		for _, ch := range line {
			if ch == '(' {
				depth++
				started = true
			} else if ch == ')' {
				depth--
			}
		}
		if started && depth <= 0 {
			return sb.String(), nil
		}
	}
}

// parseValues parses "((v1 #x00) (v2 true) ...)".
func parseValues(txt string, vars []*Term, model map[*Term]uint64) {
	byRef := map[string]*Term{}
	for _, v := range vars {
		byRef[v.ref()] = v
	}
	toks := strings.FieldsFunc(txt, func(r rune) bool { return r == '(' || r == ')' || r == ' ' || r == '\n' || r == '\t' })
	for i := 0; i+1 < len(toks); i++ {
		v, ok := byRef[toks[i]]
		if !ok {
			continue
		}
		val := toks[i+1]
		var u uint64
		switch {
		case val == "true":
			u = 1
		case val == "false":
			u = 0
		case strings.HasPrefix(val, "#x"):
			u, _ = strconv.ParseUint(val[2:], 16, 64)
		case strings.HasPrefix(val, "#b"):
			u, _ = strconv.ParseUint(val[2:], 2, 64)
		case val == "_" && i+3 < len(toks) && strings.HasPrefix(toks[i+2], "bv"):
			u, _ = strconv.ParseUint(toks[i+2][2:], 10, 64)
		}
		model[v] = u
		i++
	}
}
