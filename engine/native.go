package main

// Native replay: a counterexample of a harness that uses no engine-only facility is also run
// against the real build with `go test -overlay` (values come from the replay file).

import (
	"encoding/json"
	"fmt"
	"os"
	"os/exec"
	"path/filepath"
	"sort"
	"strings"
	"time"
)

func writeNativeOverlay(o *Options, prog *Program) (string, error) {
	dir := filepath.Join(o.outDir, "native")
	os.MkdirAll(dir, 0o755)
	repl := map[string]string{}
	files, _ := filepath.Glob(filepath.Join(o.harnessDir, "sarama", "*.go"))
	for _, f := range files {
		repl[filepath.Join(o.repo, "zz_verif_"+filepath.Base(f))] = f
	}
	gb := filepath.Join(dir, "gen_bodies.go")
	if err := os.WriteFile(gb, prog.genBodies, 0o644); err != nil {
		return "", err
	}
	repl[filepath.Join(o.repo, "zz_verif_gen_bodies.go")] = gb
	gf := filepath.Join(dir, "gen_fill.go")
	if err := os.WriteFile(gf, prog.genFill, 0o644); err != nil {
		return "", err
	}
	repl[filepath.Join(o.repo, "zz_verif_gen_fill.go")] = gf
	var names []string
	for n, fn := range prog.harnesses {
		if fn.Pkg != nil && fn.Pkg.Pkg.Path() == targetPath {
			names = append(names, n)
		}
	}
	sort.Strings(names)
	var sb strings.Builder
	sb.WriteString("//go:build verif\n\npackage sarama\n\nimport (\n\t\"os\"\n\t\"testing\"\n)\n\nvar vHarnessTable = map[string]func(){\n")
	for _, n := range names {
		fmt.Fprintf(&sb, "\t%q: %s,\n", n, n)
	}
	sb.WriteString(`}

// TestVerifReplay runs the harness named by $VERIF_HARNESS natively with the values of $VERIF_REPLAY.
func TestVerifReplay(t *testing.T) {
	fn := vHarnessTable[os.Getenv("VERIF_HARNESS")]
	if fn == nil {
		t.Skip("no such harness")
	}
	defer func() {
		if r := recover(); r != nil {
			if _, ok := r.(vAssumeFailed); ok {
				t.Skip("VERIF-ASSUMPTION-FAILED")
			}
			if s, ok := r.(string); ok && len(s) > 6 && s[:6] == "verif:" {
				t.Skip("VERIF-ENGINE-ONLY " + s)
			}
			t.Fatalf("VERIF-PANIC: %v", r)
		}
	}()
	fn()
	if len(vFailed) > 0 {
		t.Fatalf("VERIF-ASSERT-FAILED: %v", vFailed)
	}
}
`)
	tf := filepath.Join(dir, "replay_test.go")
	if err := os.WriteFile(tf, []byte(sb.String()), 0o644); err != nil {
		return "", err
	}
	repl[filepath.Join(o.repo, "zz_verif_replay_test.go")] = tf
	ov := filepath.Join(dir, "overlay.json")
	b, _ := json.MarshalIndent(map[string]interface{}{"Replace": repl}, "", " ")
	if err := os.WriteFile(ov, b, 0o644); err != nil {
		return "", err
	}
	return ov, nil
}

// nativeReplay returns (ran, reproduced, note).
func nativeReplay(o *Options, prog *Program, f *Failure, file string) (bool, bool, string) {
	if f.Kind == "deadlock" || f.Kind == "hang" || f.Kind == "alloc" {
		return false, false, "kind not replayable natively (" + f.Kind + ")"
	}
	ov, err := writeNativeOverlay(o, prog)
	if err != nil {
		return false, false, err.Error()
	}
	cmd := exec.Command("go", "test", "-tags", "verif", "-overlay", ov, "-vet=off", "-count=1", "-v", "-run", "^TestVerifReplay$", "-timeout", "120s", ".")
	cmd.Dir = o.repo
	cmd.Env = append(os.Environ(), "GOFLAGS=-mod=mod", "GOPROXY=off", "GOSUMDB=off", "GOTOOLCHAIN=local",
		"VERIF_REPLAY="+file, "VERIF_HARNESS="+f.Harness)
	done := make(chan struct{})
	var out []byte
	go func() { out, err = cmd.CombinedOutput(); close(done) }()
	select {
	case <-done:
	case <-time.After(300 * time.Second):
		cmd.Process.Kill()
		return true, false, "native replay timed out"
	}
	s := string(out)
	switch {
	case strings.Contains(s, "VERIF-ENGINE-ONLY"):
		return false, false, "harness uses an engine-only facility (override table / sync introspection)"
	case strings.Contains(s, "VERIF-ASSUMPTION-FAILED"):
		return true, false, "assumption failed natively"
	case strings.Contains(s, "VERIF-PANIC") && f.Kind == "panic":
		return true, true, "native go test panicked: " + firstLine(s, "VERIF-PANIC")
	case strings.Contains(s, "VERIF-ASSERT-FAILED") && f.Kind == "assert" && strings.Contains(s, f.Label):
		return true, true, "native go test failed the same assertion"
	case strings.Contains(s, "--- SKIP"):
		return false, false, "native run skipped: " + firstLine(s, "SKIP")
	case strings.Contains(s, "\nok ") || strings.HasPrefix(s, "ok "):
		return true, false, "native go test passed"
	}
	return true, false, "native replay inconclusive: " + firstLine(s, "")
}

func firstLine(s, marker string) string {
	for _, l := range strings.Split(s, "\n") {
		if marker == "" && strings.TrimSpace(l) != "" {
			return truncate(l, 200)
		}
		if marker != "" && strings.Contains(l, marker) {
			return truncate(strings.TrimSpace(l), 200)
		}
	}
	return ""
}

func truncate(s string, n int) string {
	if len(s) > n {
		return s[:n]
	}
	return s
}
