#!/bin/bash
# selftest.sh [ids...]: translator validation of the engine, not a property check.
#  - native differential: models of completed paths are run against the real build (go test -c -overlay)
#  - cross-solver: sampled queries re-decided by cvc5 1.0 and z3 4.8.12
# Writes selftest/RESULTS.md. Exit 0 iff no disagreement anywhere.
cd "$(dirname "$0")"
IDS=${*:-C03 C04 C06 C08 C09 C10 C11 C13 C15 C16 C17 C19}
mkdir -p selftest
OUT=selftest/RESULTS.md
{ echo "# symgo selftest ($(date -u +%F))"; echo; echo "Per property: quick tier with \`-natsample 24 -xcheck cvc5,z3 -xevery 40\`."; echo; echo '```'; } > $OUT
RC=0
for p in $IDS; do
  L=$(./check $p quick -noevidence -natsample 24 -xcheck cvc5,z3 -xevery 40 2>&1 | grep -E "^SELFTEST|^  verifHarness.*(assumption|VERIF|panic)|^property=|selftest:")
  echo "== $p" >> $OUT; echo "$L" >> $OUT
  echo "$L" | grep -q "selftest:" && RC=1
done
echo '```' >> $OUT
exit $RC
